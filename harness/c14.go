package main

import (
	"encoding/hex"
	"fmt"
	"sort"
	"strconv"
	"strings"
	"time"

	redis "github.com/samaritan-proxy/samaritan/proc/redis"
)

func bulk(s string) redis.RespValue { return redis.RespValue{Type: redis.BulkString, Text: []byte(s)} }
func bulkB(b []byte) redis.RespValue {
	if b == nil {
		b = []byte{}
	}
	return redis.RespValue{Type: redis.BulkString, Text: b}
}
func arr(vs ...redis.RespValue) *redis.RespValue {
	return &redis.RespValue{Type: redis.Array, Array: vs}
}

func lowerASCII(b []byte) string {
	c := append([]byte{}, b...)
	for i, x := range c {
		if 'A' <= x && x <= 'Z' {
			c[i] = x + 32
		}
	}
	return string(c)
}

// the fake backends' behaviour for routing checks; mirrored by fake_answer in run/driver.ml
func fakeAnswer(body *redis.RespValue) *redis.RespValue {
	if body.Type != redis.Array || len(body.Array) == 0 {
		return &redis.RespValue{Type: redis.Error, Text: []byte("ERR bad request")}
	}
	name := lowerASCII(body.Array[0].Text)
	var key []byte
	if len(body.Array) > 1 {
		key = body.Array[1].Text
	}
	switch name {
	case "get":
		return &redis.RespValue{Type: redis.BulkString, Text: append([]byte("v:"), key...)}
	case "set":
		return &redis.RespValue{Type: redis.SimpleString, Text: []byte("OK")}
	case "del", "exists", "touch", "unlink":
		return &redis.RespValue{Type: redis.Integer, Int: int64(len(key) % 2)}
	case "readonly", "asking":
		return &redis.RespValue{Type: redis.SimpleString, Text: []byte("OK")}
	}
	return &redis.RespValue{Type: redis.BulkString, Text: append(append([]byte(name), ':'), key...)}
}

// cluster layout -> CLUSTER NODES text
type layout struct {
	masters  []string
	replicas [][]string
	ranges   [][][2]int // per master: slot ranges
}

func (l *layout) text() string {
	var b strings.Builder
	for i, m := range l.masters {
		id := fmt.Sprintf("%040x", i+1)
		fmt.Fprintf(&b, "%s %s@1%s master - 0 0 %d connected", id, m, m[strings.Index(m, ":")+1:], i+1)
		for _, r := range l.ranges[i] {
			if r[0] == r[1] {
				fmt.Fprintf(&b, " %d", r[0])
			} else {
				fmt.Fprintf(&b, " %d-%d", r[0], r[1])
			}
		}
		b.WriteString("\n")
		for j, rep := range l.replicas[i] {
			fmt.Fprintf(&b, "%040x %s@1%s slave %s 0 0 %d connected\n", 1000*(i+1)+j, rep, rep[strings.Index(rep, ":")+1:], id, i+1)
		}
	}
	return b.String()
}

func genLayout(r *rng) *layout {
	m := 1 + r.intn(5)
	l := &layout{}
	// cut points
	cuts := []int{0}
	for i := 1; i < m; i++ {
		cuts = append(cuts, 1+r.intn(16383))
	}
	cuts = append(cuts, 16384)
	sort.Ints(cuts)
	hole := r.chance(1, 5)
	for i := 0; i < m; i++ {
		l.masters = append(l.masters, fmt.Sprintf("10.0.0.%d:7000", i+1))
		var reps []string
		for j, nr := 0, r.intn(3); j < nr; j++ {
			reps = append(reps, fmt.Sprintf("10.0.%d.%d:7001", i+1, j+1))
		}
		l.replicas = append(l.replicas, reps)
		lo, hi := cuts[i], cuts[i+1]-1
		var rs [][2]int
		if lo <= hi {
			if hole && hi-lo > 10 {
				mid := lo + (hi-lo)/2
				rs = append(rs, [2]int{lo, mid - 1}, [2]int{mid + 1, hi}) // slot mid unassigned
			} else {
				rs = append(rs, [2]int{lo, hi})
			}
		} else {
			rs = append(rs, [2]int{lo, lo})
		}
		l.ranges = append(l.ranges, rs)
	}
	return l
}

// every command name Redis knows (for C14) plus what the proxy supports
var redisCommands = strings.Fields(`append asking auth bgrewriteaof bgsave bitcount bitfield bitop bitpos blpop brpop brpoplpush bzpopmax bzpopmin client cluster command config dbsize debug decr decrby del discard dump echo eval evalsha exec exists expire expireat flushall flushdb geoadd geodist geohash geopos georadius georadius_ro georadiusbymember georadiusbymember_ro get getbit getrange getset hdel hexists hget hgetall hincrby hincrbyfloat hkeys hlen hmget hmset hscan hset hsetnx hstrlen hvals incr incrby incrbyfloat info keys lastsave lindex linsert llen lpop lpush lpushx lrange lrem lset ltrim memory mget migrate module monitor move mset msetnx multi object persist pexpire pexpireat pfadd pfcount pfmerge ping psetex psubscribe psync pttl publish pubsub punsubscribe quit randomkey readonly readwrite rename renamenx replicaof restore role rpop rpoplpush rpush rpushx sadd save scan scard script sdiff sdiffstore select set setbit setex setnx setrange shutdown sinter sinterstore sismember slaveof slowlog smembers smove sort spop srandmember srem sscan strlen subscribe sunion sunionstore swapdb sync time touch ttl type unlink unsubscribe unwatch wait watch xack xadd xclaim xdel xgroup xinfo xlen xpending xrange xread xreadgroup xrevrange xtrim zadd zcard zcount zincrby zinterstore zlexcount zpopmax zpopmin zrange zrangebylex zrangebyscore zrank zrem zremrangebylex zremrangebyrank zremrangebyscore zrevrange zrevrangebylex zrevrangebyscore zrevrank zscan zscore zunionstore hotkey`)

func caseVariant(r *rng, s string) []byte {
	b := []byte(s)
	switch r.intn(5) {
	case 0:
	case 1:
		b = []byte(strings.ToUpper(s))
	case 2:
		for i := range b {
			if r.chance(1, 2) && 'a' <= b[i] && b[i] <= 'z' {
				b[i] -= 32
			}
		}
	case 3: // non-ASCII look-alikes: KELVIN SIGN for k, LATIN CAPITAL I WITH DOT for i, LONG S for s
		var o []byte
		for _, c := range b {
			switch {
			case c == 'k' && r.chance(1, 2):
				o = append(o, 0xE2, 0x84, 0xAA)
			case c == 'i' && r.chance(1, 2):
				o = append(o, 0xC4, 0xB0)
			case c == 's' && r.chance(1, 2):
				o = append(o, 0xC5, 0xBF)
			default:
				o = append(o, c)
			}
		}
		b = o
	default: // a near miss
		switch r.intn(4) {
		case 0:
			b = append(b, "x_ \r\n"[r.intn(5)])
		case 1:
			if len(b) > 1 {
				b = b[:len(b)-1]
			}
		case 2:
			b = append([]byte{" \x00x"[r.intn(3)]}, b...)
		default:
			b = append(b, "_ro"...)
		}
	}
	return b
}

func genKey(r *rng) []byte {
	switch r.intn(6) {
	case 0:
		return []byte(fmt.Sprintf("k%d", r.intn(40)))
	case 1:
		return []byte(fmt.Sprintf("{tag%d}x%d", r.intn(5), r.intn(50)))
	case 2:
		return r.bytes(r.intn(6))
	case 3:
		return []byte{}
	default:
		return []byte(fmt.Sprintf("key:%d", r.intn(100000)))
	}
}

func localClass(v *redis.RespValue) string {
	if v == nil {
		return ""
	}
	if v.Type == redis.BulkString && strings.HasPrefix(string(v.Text), "pid: ") {
		return "LOCAL:info"
	}
	if v.Type == redis.BulkString && strings.HasPrefix(string(v.Text), "Collect ") {
		return "LOCAL:hotkey"
	}
	if v.Type == redis.Array && len(v.Array) == 2 && v.Array[0].Type == redis.BulkString && v.Array[1].Type == redis.BulkString {
		isnum := func(b []byte) bool {
			if len(b) == 0 {
				return false
			}
			for _, c := range b {
				if c < '0' || c > '9' {
					return false
				}
			}
			return true
		}
		if isnum(v.Array[0].Text) && isnum(v.Array[1].Text) && len(v.Array[0].Text) >= 9 {
			return "LOCAL:time"
		}
	}
	return ""
}

func init() {
	// ---- C14/C03 routing: what reaches which backend, and the assembled reply ----
	register("c14", func() {
		cases, impl := create("cases.txt"), create("impl.txt")
		hist := map[string]int{}
		type envKey struct {
			st   int
			text string
		}
		envs := map[envKey]*redis.VerifEnv{}
		getEnv := func(st int, l *layout) *redis.VerifEnv {
			k := envKey{st, l.text()}
			if e, ok := envs[k]; ok {
				return e
			}
			// every other environment starts with another read strategy and gets the wanted one through a configuration
			// update after the routing table has been loaded: the update must take effect at once
			switchLater := len(envs)%2 == 1
			initial := st
			if switchLater {
				initial = (st + 1) % 3
			}
			e := redis.VerifNewEnv(l.masters, int32(initial), nil)
			for _, reps := range l.replicas {
				for _, rp := range reps {
					e.AddBackend(rp)
				}
			}
			text := l.text()
			e.SetAnswer(func(addr string, body *redis.RespValue) *redis.RespValue {
				if len(body.Array) == 2 && lowerASCII(body.Array[0].Text) == "cluster" {
					return &redis.RespValue{Type: redis.BulkString, Text: []byte(text)}
				}
				return fakeAnswer(body)
			})
			if err := e.LoadSlots(); err != nil {
				die("LoadSlots: %v", err)
			}
			if switchLater {
				e.SetReadStrategy(int32(st))
			}
			e.Sent()
			envs[k] = e
			return e
		}
		emit := func(st int, l *layout, req *redis.RespValue) {
			e := getEnv(st, l)
			fmt.Fprintf(cases, "%d %s %s %s\n", st, hex.EncodeToString([]byte(strings.Join(l.masters, ","))), hex.EncodeToString([]byte(l.text())), valString(req))
			reply, timedOut := envDo(e, req, 2*time.Second)
			time.Sleep(0)
			var out string
			switch {
			case len(e.Panics()) > 0:
				out = "PANIC"
			case timedOut:
				out = "TIMEOUT"
			default:
				if c := localClass(reply); c != "" {
					out = c
				} else {
					out = valString(reply)
				}
			}
			var subs []string
			for _, s := range e.Sent() {
				subs = append(subs, s.Addr+"="+strings.ReplaceAll(valString(s.Body), " ", "_"))
			}
			sort.Strings(subs)
			fmt.Fprintln(impl, out+" | "+strings.Join(subs, " "))
		}
		if *fIn != "" {
			die("c14 replay: use the seed")
		}
		r := newRng(*fSeed)
		layouts := []*layout{}
		for i := 0; i < 6; i++ {
			layouts = append(layouts, genLayout(r))
		}
		// every Redis command name in several letter cases, with 0..3 arguments
		for _, name := range redisCommands {
			for v := 0; v < 6; v++ {
				nm := caseVariant(r, name)
				vs := []redis.RespValue{bulkB(nm)}
				for a, na := 0, r.intn(4); a < na; a++ {
					vs = append(vs, bulkB(genKey(r)))
				}
				hist["named"]++
				emit(r.intn(3), layouts[r.intn(len(layouts))], arr(vs...))
			}
		}
		for i := 0; i < *fN; i++ {
			l := layouts[r.intn(len(layouts))]
			st := r.intn(3)
			var req *redis.RespValue
			switch r.intn(10) {
			case 0: // shapes that are not requests
				hist["shape"]++
				req = genVal(r, 2, false)
			case 1, 2: // multi-key
				hist["multikey"]++
				name := []string{"mget", "mset", "del", "exists", "touch", "unlink", "MGET", "MSet"}[r.intn(8)]
				vs := []redis.RespValue{bulk(name)}
				for a, na := 0, r.intn(7); a < na; a++ {
					vs = append(vs, bulkB(genKey(r)))
				}
				req = arr(vs...)
			case 3:
				hist["eval"]++
				vs := []redis.RespValue{bulk([]string{"eval", "EVAL", "evalsha"}[r.intn(3)]), bulk("return 1")}
				if r.chance(1, 2) { // a well-formed key count, with as many keys, fewer, or more
					nk := r.intn(4)
					vs = append(vs, bulk(strconv.Itoa(nk)))
					for a, na := 0, []int{nk, r.intn(nk + 1), nk + r.intn(2)}[r.intn(3)]; a < na; a++ {
						vs = append(vs, bulkB(genKey(r)))
					}
				} else {
					for a, na := 0, r.intn(4); a < na; a++ {
						vs = append(vs, bulkB(genKey(r)))
					}
				}
				req = arr(vs...)
			case 4:
				hist["random-name"]++
				vs := []redis.RespValue{bulkB(r.bytes(r.intn(8)))}
				for a, na := 0, r.intn(3); a < na; a++ {
					vs = append(vs, bulkB(genKey(r)))
				}
				req = arr(vs...)
			default:
				hist["supported"]++
				name := redisCommands[r.intn(len(redisCommands))]
				vs := []redis.RespValue{bulkB(caseVariant(r, name))}
				for a, na := 0, 1+r.intn(3); a < na; a++ {
					vs = append(vs, bulkB(genKey(r)))
				}
				req = arr(vs...)
			}
			emit(st, l, req)
		}
		for _, e := range envs {
			e.Close()
		}
		writeHist(hist)
	})
}
