package main

import (
	"encoding/hex"
	"fmt"

	redis "github.com/samaritan-proxy/samaritan/proc/redis"
)

// C12: slot / hashtag / crc16 of keys.
// cases.txt : one hex key per line;  impl.txt : "<slot> <crc16 of whole key> <hex tag>"
func init() {
	register("c12", func() {
		cases := create("cases.txt")
		impl := create("impl.txt")
		r := newRng(*fSeed)
		hist := map[string]int{}
		emit := func(kind string, key []byte) {
			hist[kind]++
			fmt.Fprintln(cases, hex.EncodeToString(key))
			fmt.Fprintf(impl, "%d %d %s\n", redis.VerifSlot(key), redis.VerifCrc16(key), hex.EncodeToString(redis.VerifHashtag(key)))
		}
		if *fIn != "" {
			for _, l := range readLines(*fIn) {
				k, err := hex.DecodeString(l)
				if err != nil {
					die("bad hex in %s", *fIn)
				}
				emit("replay", k)
			}
			writeHist(hist)
			return
		}
		// exhaustive: every key of length <= 2 (65,793 keys)
		emit("exhaustive<=2", []byte{})
		for a := 0; a < 256; a++ {
			emit("exhaustive<=2", []byte{byte(a)})
		}
		for a := 0; a < 256; a++ {
			for b := 0; b < 256; b++ {
				emit("exhaustive<=2", []byte{byte(a), byte(b)})
			}
		}
		// exhaustive over the alphabet { '{', '}', 'a', 'b' } up to length 7: all brace placements
		alpha := []byte("{}ab")
		var rec func(prefix []byte, left int)
		rec = func(prefix []byte, left int) {
			if len(prefix) > 2 {
				emit("braces<=7", prefix)
			}
			if left == 0 {
				return
			}
			for _, c := range alpha {
				rec(append(append([]byte{}, prefix...), c), left-1)
			}
		}
		rec(nil, 7)
		// structured random keys: pieces of text with braces inserted
		for i := 0; i < *fN; i++ {
			var k []byte
			for p, np := 0, r.intn(6); p <= np; p++ {
				switch r.intn(6) {
				case 0:
					k = append(k, '{')
				case 1:
					k = append(k, '}')
				case 2:
					k = append(k, r.bytes(r.intn(4))...)
				default:
					n := r.intn(12)
					for j := 0; j < n; j++ {
						k = append(k, "abcxyz0189:_-"[r.intn(13)])
					}
				}
			}
			emit("structured", k)
		}
		// raw random bytes, a few long ones
		for i := 0; i < *fN/4; i++ {
			n := r.intn(64)
			if r.chance(1, 50) {
				n = 1000 + r.intn(70000)
			}
			emit("random", r.bytes(n))
		}
		writeHist(hist)
	})
}
