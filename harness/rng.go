package main

// splitmix64: every random choice of the harness derives from one seed.
type rng struct{ s uint64 }

func newRng(seed int64) *rng { return &rng{uint64(seed)*0x9E3779B97F4A7C15 + 0x1234567} }

func (r *rng) u64() uint64 {
	r.s += 0x9E3779B97F4A7C15
	z := r.s
	z = (z ^ (z >> 30)) * 0xBF58476D1CE4E5B9
	z = (z ^ (z >> 27)) * 0x94D049BB133111EB
	return z ^ (z >> 31)
}
func (r *rng) intn(n int) int {
	if n <= 0 {
		return 0
	}
	return int(r.u64() % uint64(n))
}
func (r *rng) bytes(n int) []byte {
	b := make([]byte, n)
	for i := range b {
		b[i] = byte(r.u64())
	}
	return b
}
func (r *rng) pick(bs []byte) byte      { return bs[r.intn(len(bs))] }
func (r *rng) chance(num, den int) bool { return r.intn(den) < num }
