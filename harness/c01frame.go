package main

// C01, framing only: whatever the requests contain, the proxy writes exactly one reply for each.
//   case line:  <n> <token> [slow|late|cross|flush|big|filtered] # <request> ; <request> ; ...   (slow: 600 ms nodes behind a 250 ms idle timeout; late: a node answering after 3.3 s)      (n requests, every command name the proxy or Redis knows,
//               arguments with CR LF and reply look-alikes in every position)
//   the client writes the n requests and then GET <sentinel key>, whose value is <token> (set beforehand over another
//   connection); it reads replies until one is the bulk string <token>
//   output:     replies=<number of replies read, the sentinel's included> | TIMEOUT after <k> replies | BAD-REPLY

import (
	"bufio"
	"bytes"
	"fmt"
	"net"
	"strconv"
	"strings"
	"time"

	"github.com/samaritan-proxy/samaritan/proc/redis"
)

// slowFlushConn: Write returns a while after the peer has received the bytes - the goroutine that wrote is held up
// between its flush and whatever it does next
type slowFlushConn struct {
	net.Conn
	delay time.Duration
}

func (s *slowFlushConn) Write(b []byte) (int, error) {
	n, err := s.Conn.Write(b)
	time.Sleep(s.delay)
	return n, err
}

// slowFlush: a real backend client (loopWrite, loopRead) over such a connection to a node that answers at once: every
// reply reaches the client's reader before the writer has handed the request over to it. Each request still gets exactly
// its own reply (the reader waits for the request the reply belongs to).
func slowFlush(token []byte) string {
	seed, real := "10.7.0.1:7000", "10.7.0.2:7000"
	env := redis.VerifNewEnv([]string{seed}, 0, &redis.VerifCompression{})
	defer env.Close()
	env.SetAnswer(func(addr string, body *redis.RespValue) *redis.RespValue {
		switch lowerASCII(body.Array[0].Text) {
		case "get":
			return rErr("MOVED 1 " + real) // the seed owns nothing: the real client's node does
		case "cluster":
			return rErr("ERR not now")
		}
		return &redis.RespValue{Type: redis.SimpleString, Text: []byte("OK")}
	})
	a, b := net.Pipe()
	defer a.Close()
	defer b.Close()
	go func() { // the node
		br := bufio.NewReader(b)
		for {
			v, err := wireRead(br)
			if err != nil {
				return
			}
			rp := wSimple("OK")
			if v.t == '*' && len(v.a) == 2 && asciiLowerB(v.a[0].s) == "get" {
				rp = wBulk(append([]byte("value-of-"), v.a[1].s...))
			}
			if _, err := b.Write(rp.bytes()); err != nil {
				return
			}
		}
	}()
	if err := env.AddRealBackend(real, &slowFlushConn{Conn: a, delay: 120 * time.Millisecond}); err != nil {
		return "SETUP-FAILED"
	}
	for i := 0; i < 5; i++ {
		key := fmt.Sprintf("%s-%d", token, i)
		reply, timedOut := env.Do(arr(bulk("get"), bulk(key)), 3*time.Second)
		if timedOut || reply == nil {
			return fmt.Sprintf("TIMEOUT after %d replies", i)
		}
		if string(reply.Text) != "value-of-"+key {
			return fmt.Sprintf("BAD-REPLY %q for request %d", reply.Text, i)
		}
	}
	if len(env.Panics()) > 0 {
		return "PANIC"
	}
	return "replies=1"
}

var c01Hostile = []string{"x\r\n+OK", "\r\n", "1\r\n:2", "-ERR x\r\n", "$-1\r\n", "*2\r\n", "abc", "", "0", "-1", "18446744073709551616", "k1", "{t}a", "match", "count", "\n", "\r"}

func crossTalk(cl *simCluster, sp *simProxy, token []byte) string {
	setup := dialProxy(sp.addr)
	for _, kv := range [][2]string{{"cross:a", "AAAAAAAAAAAAAAAA"}, {"cross:b", string(token)}} {
		setup.send(bulkArr([]byte("set"), []byte(kv[0]), []byte(kv[1])).bytes(), nil)
		if _, err := setup.recv(3 * time.Second); err != nil {
			setup.close()
			return "SETUP-FAILED"
		}
	}
	setup.close()
	cl.mu.Lock()
	for _, nd := range cl.nodes {
		nd.delayMs = 25
	}
	cl.mu.Unlock()
	defer func() {
		cl.mu.Lock()
		for _, nd := range cl.nodes {
			nd.delayMs = 0
		}
		cl.mu.Unlock()
	}()
	b := dialProxy(sp.addr)
	defer b.close()
	bad := ""
	for round := 0; round < 6 && bad == ""; round++ {
		a := dialProxy(sp.addr)
		var buf []byte
		for i := 0; i < 40; i++ {
			buf = append(buf, bulkArr([]byte("get"), []byte("cross:a")).bytes()...)
		}
		a.send(buf, nil)
		time.Sleep(10 * time.Millisecond)
		if tc, ok := a.c.(*net.TCPConn); ok {
			tc.SetLinger(0)
		}
		a.close()
		for i := 0; i < 12 && bad == ""; i++ {
			b.send(bulkArr([]byte("get"), []byte("cross:b")).bytes(), nil)
			v, err := b.recvPatient(4 * time.Second)
			if err != nil {
				bad = "NO-REPLY on the other connection"
			} else if v.t != '$' || string(v.s) != string(token) {
				bad = "the other connection received " + v.String()
			}
		}
	}
	if bad != "" {
		return "CROSS-TALK: " + bad
	}
	return "replies=1"
}

// filteredPipeline: with compression enabled the proxy answers APPEND (and the other commands that cannot work on
// compressed values) itself, in the backend connection's filter chain. A pipeline GET k / APPEND k x over one
// connection: both replies arrive, in order, although the second request is never written to the node.
func filteredPipeline(cl *simCluster, token []byte) string {
	simProxyCompress = 64
	sp := startRedisProxy([]string{cl.nodes[0].addr, cl.nodes[1].addr}, 0)
	simProxyCompress = 0
	defer stopProxy(sp)
	sp.waitSlotsLoaded(1)
	c := dialProxy(sp.addr)
	defer c.close()
	c.send(bulkArr([]byte("set"), []byte("filt:k"), token).bytes(), nil)
	if _, err := c.recvPatient(3 * time.Second); err != nil {
		return "SETUP-FAILED"
	}
	for round := 0; round < 25; round++ {
		var buf []byte
		buf = append(buf, bulkArr([]byte("get"), []byte("filt:k")).bytes()...)
		buf = append(buf, bulkArr([]byte("append"), []byte("filt:k"), []byte("x")).bytes()...)
		c.send(buf, nil)
		v, err := c.recvPatient(2 * time.Second)
		if err != nil {
			return fmt.Sprintf("TIMEOUT after %d replies", 2*round)
		}
		if v.t != '$' || string(v.s) != string(token) {
			return "BAD-REPLY " + v.String()
		}
		v, err = c.recvPatient(2 * time.Second)
		if err != nil {
			return fmt.Sprintf("TIMEOUT after %d replies", 2*round+1)
		}
		if v.t != '-' {
			return "BAD-REPLY " + v.String()
		}
	}
	return "replies=1"
}

// bigReplies: a pipeline alternating requests with small replies and replies of 9000..70000 bytes (larger than any of the
// session's buffers), answered by nodes that take 15 ms: several replies are ready for the session's writer at once.
// Every reply arrives in the position of its request, whole.
func bigReplies(cl *simCluster, sp *simProxy, token []byte) string {
	sizes := []int{9000, 20000, 8192, 70000, 16384}
	setup := dialProxy(sp.addr)
	defer setup.close()
	for i, n := range sizes {
		val := bytes.Repeat([]byte{byte('a' + i)}, n)
		setup.send(bulkArr([]byte("set"), []byte(fmt.Sprintf("big:%d", i)), val).bytes(), nil)
		if _, err := setup.recv(3 * time.Second); err != nil {
			return "SETUP-FAILED"
		}
	}
	setup.send(bulkArr([]byte("set"), []byte("big:small"), token).bytes(), nil)
	if _, err := setup.recv(3 * time.Second); err != nil {
		return "SETUP-FAILED"
	}
	cl.mu.Lock()
	for _, nd := range cl.nodes {
		nd.delayMs = 15
	}
	cl.mu.Unlock()
	defer func() {
		cl.mu.Lock()
		for _, nd := range cl.nodes {
			nd.delayMs = 0
		}
		cl.mu.Unlock()
	}()
	c := dialProxy(sp.addr)
	defer c.close()
	for round := 0; round < 4; round++ {
		var buf []byte
		var want []int // -1: the small value, otherwise the index of the big one
		for i := range sizes {
			buf = append(buf, bulkArr([]byte("get"), []byte("big:small")).bytes()...)
			want = append(want, -1)
			buf = append(buf, bulkArr([]byte("get"), []byte(fmt.Sprintf("big:%d", (i+round)%len(sizes)))).bytes()...)
			want = append(want, (i+round)%len(sizes))
		}
		buf = append(buf, bulkArr([]byte("get"), []byte("big:small")).bytes()...)
		want = append(want, -1)
		c.send(buf, nil)
		for k, w := range want {
			v, err := c.recvPatient(4 * time.Second)
			if err != nil {
				return fmt.Sprintf("TIMEOUT after %d replies", k)
			}
			if w == -1 {
				if v.t != '$' || string(v.s) != string(token) {
					return fmt.Sprintf("BAD-REPLY in position %d: expected the small value, got a %c of %d bytes", k, v.t, len(v.s))
				}
			} else if v.t != '$' || len(v.s) != sizes[w] || v.s[0] != byte('a'+w) || v.s[len(v.s)-1] != byte('a'+w) {
				return fmt.Sprintf("BAD-REPLY in position %d: expected %d bytes of %c, got a %c of %d bytes", k, sizes[w], 'a'+w, v.t, len(v.s))
			}
		}
	}
	return "replies=1"
}

func init() {
	register("c01frame", func() {
		cases, impl := create("cases.txt"), create("impl.txt")
		hist := map[string]int{}
		cl := newSimCluster(2)
		defer cl.close()
		cl.setLayout([][3]int{{0, 8000, 0}, {8001, 16383, 1}})
		sp := startRedisProxy([]string{cl.nodes[0].addr, cl.nodes[1].addr}, 0)
		defer stopProxy(sp)
		if !sp.waitSlotsLoaded(1) {
			die("slots not loaded")
		}
		// a second service over the same cluster whose idle timeout (250 ms) is shorter than the nodes' answers in "slow" cases
		simProxyIdle = 250 * time.Millisecond
		spSlow := startRedisProxy([]string{cl.nodes[0].addr, cl.nodes[1].addr}, 0)
		simProxyIdle = 0
		defer stopProxy(spSlow)
		spSlow.waitSlotsLoaded(1)
		spFast := sp
		run := func(line string) string {
			hd := strings.SplitN(line, " # ", 2)
			f := strings.Fields(hd[0])
			token := []byte(f[1])
			sp := spFast
			if len(f) > 2 && f[2] == "flush" {
				return slowFlush(token)
			}
			if len(f) > 2 && f[2] == "filtered" {
				return filteredPipeline(cl, token)
			}
			if len(f) > 2 && f[2] == "big" {
				return bigReplies(cl, spFast, token)
			}
			if len(f) > 2 && f[2] == "cross" {
				// a connection goes away with forty requests still on their way to slow nodes; another connection keeps
				// asking for its own key: every reply it gets is its own
				return crossTalk(cl, spFast, token)
			}
			late := len(f) > 2 && f[2] == "late"
			if late {
				// a node that answers after 3.3 s: the one reply is the node's
				defer func() {
					cl.mu.Lock()
					for _, nd := range cl.nodes {
						nd.delayMs = 0
					}
					cl.mu.Unlock()
				}()
			}
			if len(f) > 2 && f[2] == "slow" {
				// the nodes answer after 600 ms: a request is not idleness, the connection stays
				sp = spSlow
				cl.mu.Lock()
				for _, nd := range cl.nodes {
					nd.delayMs = 600
				}
				cl.mu.Unlock()
				defer func() {
					cl.mu.Lock()
					for _, nd := range cl.nodes {
						nd.delayMs = 0
					}
					cl.mu.Unlock()
				}()
			}
			setup := dialProxy(spFast.addr)
			setup.send(bulkArr([]byte("set"), []byte("sentinel:key"), token).bytes(), nil)
			if _, err := setup.recv(3 * time.Second); err != nil {
				setup.close()
				return "SETUP-FAILED"
			}
			setup.close()
			if late {
				cl.mu.Lock()
				for _, nd := range cl.nodes {
					nd.delayMs = 3300
				}
				cl.mu.Unlock()
			}
			sc := dialProxy(sp.addr)
			defer sc.close()
			var buf []byte
			for _, it := range strings.Split(hd[1], " ; ") {
				if strings.TrimSpace(it) == "" || strings.TrimSpace(it) == "-" {
					continue
				}
				pos := 0
				buf = append(buf, wvOfTokens(strings.Fields(it), &pos).bytes()...)
			}
			buf = append(buf, bulkArr([]byte("get"), []byte("sentinel:key")).bytes()...)
			sc.send(buf, nil)
			got := 0
			for {
				v, err := sc.recv(time.Duration(float64(3*time.Second)*loadFactor) + 4*time.Second)
				if err != nil {
					if strings.Contains(err.Error(), "timeout") || strings.Contains(err.Error(), "EOF") {
						return fmt.Sprintf("TIMEOUT after %d replies", got)
					}
					return fmt.Sprintf("BAD-REPLY after %d replies: %v", got, err)
				}
				got++
				if v.t == '$' && !v.null && string(v.s) == string(token) {
					return fmt.Sprintf("replies=%d", got)
				}
				if got > 64 {
					return "replies>64"
				}
			}
		}
		emit := func(line string) {
			fmt.Fprintln(cases, line)
			fmt.Fprintln(impl, run(line))
		}
		if *fIn != "" {
			for _, l := range readLines(*fIn) {
				emit(l)
			}
			writeHist(hist)
			return
		}
		r := newRng(*fSeed)
		emit(fmt.Sprintf("2 tok%d_slow slow # %s ; %s", *fSeed, bulkArr([]byte("get"), []byte("k1")).String(), bulkArr([]byte("set"), []byte("k2"), []byte("v")).String()))
		emit(fmt.Sprintf("0 tok%d_late late # -", *fSeed))
		emit(fmt.Sprintf("0 tok%d_cross cross # -", *fSeed))
		emit(fmt.Sprintf("0 tok%d_flush flush # -", *fSeed))
		emit(fmt.Sprintf("0 tok%d_big big # -", *fSeed))
		emit(fmt.Sprintf("0 tok%d_filtered filtered # -", *fSeed))
		// every command name once with hostile arguments, then random sequences
		mk := func(name string) string {
			args := [][]byte{mixCase(r, name)}
			for i, n := 0, r.intn(5); i < n; i++ {
				if r.chance(2, 3) {
					args = append(args, []byte(c01Hostile[r.intn(len(c01Hostile))]))
				} else {
					args = append(args, []byte("k"+strconv.Itoa(r.intn(20))))
				}
			}
			return bulkArr(args...).String()
		}
		usable := func(name string) bool { return name != "quit" }
		i := 0
		for _, name := range redisCommands {
			if !usable(name) {
				continue
			}
			for rep := 0; rep < 3; rep++ {
				i++
				emit(fmt.Sprintf("1 tok%d_%d # %s", *fSeed, i, mk(name)))
			}
			hist["one request per command name"]++
		}
		for c := 0; c < *fN && !expired(); c++ {
			i++
			n := 1 + r.intn(8)
			var items []string
			for k := 0; k < n; k++ {
				name := redisCommands[r.intn(len(redisCommands))]
				if r.chance(1, 3) {
					name = []string{"scan", "eval", "select", "ping", "get", "mget", "mset", "del", "auth", "info", "time", "hotkey", "cluster", "evalsha"}[r.intn(14)]
				}
				if !usable(name) {
					name = "ping"
				}
				items = append(items, mk(name))
			}
			emit(fmt.Sprintf("%d tok%d_%d # %s", n, *fSeed, i, strings.Join(items, " ; ")))
			hist[fmt.Sprintf("requests=%d", n)]++
		}
		writeHist(hist)
	})
}
