package main

// C20 (and the connection-limit clause of C09): traffic, faults, limits and stop against the real Redis processor;
// afterwards the public stats package is read.
//   cases.txt line = the OBSERVED event history:  L<limit> then  a (connection served) | r (connection refused at once) |
//                    x (a served connection ended) | q:<handler name or ->:<s|f> (request answered, error or not) | S (Stop)
//   impl.txt line  = cx_total cx_destroy cx_active cx_restricted rq_total rq_success rq_failure | per-command t/s/e | upstream_conserved

import (
	"bufio"
	"bytes"
	"fmt"
	"net"
	"sort"
	"strconv"
	"strings"
	"time"

	"github.com/samaritan-proxy/samaritan/host"
	"github.com/samaritan-proxy/samaritan/proc"
	"github.com/samaritan-proxy/samaritan/stats"
	"github.com/samaritan-proxy/samaritan/utils"
)

func (sp *simProxy) snapshot() string {
	pre := "service." + sp.name + "."
	cs := map[string]uint64{}
	for _, c := range stats.Counters() {
		if strings.HasPrefix(c.Name(), pre) {
			cs[strings.TrimPrefix(c.Name(), pre)] = c.Value()
		}
	}
	var active int64
	for _, g := range stats.Gauges() {
		if g.Name() == pre+"downstream.cx_active" {
			active = int64(g.Value())
		}
	}
	out := fmt.Sprintf("cx_total=%d cx_destroy=%d cx_active=%d cx_restricted=%d rq_total=%d rq_success=%d rq_failure=%d ||",
		cs["downstream.cx_total"], cs["downstream.cx_destroy_total"], active, cs["downstream.cx_restricted"],
		cs["downstream.rq_total"], cs["downstream.rq_success_total"], cs["downstream.rq_failure_total"])
	names := map[string]bool{}
	for k := range cs {
		if strings.HasPrefix(k, "redis.") {
			p := strings.Split(k, ".")
			if len(p) == 3 && (p[2] == "total" || p[2] == "success" || p[2] == "error") {
				names[p[1]] = true
			}
		}
	}
	var ns []string
	for k := range names {
		ns = append(ns, k)
	}
	sort.Strings(ns)
	for _, k := range ns {
		if cs["redis."+k+".total"] == 0 {
			continue
		}
		out += fmt.Sprintf(" %s=%d/%d/%d", k, cs["redis."+k+".total"], cs["redis."+k+".success"], cs["redis."+k+".error"])
	}
	if !strings.Contains(out, "/") {
		out += " -"
	}
	// the processor's own CLUSTER NODES requests (retried while a node is down) may be in flight at any instant: the
	// upstream counters are conserved when, within a while, a reading finds total = success + failure
	up := 0
	if waitFor(3*time.Second, func() bool {
		var t, ok, ko uint64
		for _, c := range stats.Counters() {
			switch c.Name() {
			case pre + "upstream.rq_total":
				t = c.Value()
			case pre + "upstream.rq_success_total":
				ok = c.Value()
			case pre + "upstream.rq_failure_total":
				ko = c.Value()
			}
		}
		return t == ok+ko
	}) {
		up = 1
	}
	// every gauge of the service: never below zero (an unsigned gauge wraps to a huge number), and where a gauge
	// <x>_active has the counters <x>_total and <x>_destroy_total beside it: total - destroyed = active
	gauges := "ok"
	if !waitFor(2*time.Second, func() bool {
		cs := map[string]uint64{}
		for _, c := range stats.Counters() {
			if strings.HasPrefix(c.Name(), pre) {
				cs[strings.TrimPrefix(c.Name(), pre)] = c.Value()
			}
		}
		gauges = "ok"
		for _, g := range stats.Gauges() {
			if !strings.HasPrefix(g.Name(), pre) {
				continue
			}
			n := strings.TrimPrefix(g.Name(), pre)
			v := int64(g.Value())
			if v < 0 {
				gauges = fmt.Sprintf("BAD:%s=%d", n, v)
				return false
			}
			if strings.HasSuffix(n, "_active") {
				x := strings.TrimSuffix(n, "_active")
				t, okT := cs[x+"_total"]
				d, okD := cs[x+"_destroy_total"]
				if okT && okD && int64(t)-int64(d) != v {
					gauges = fmt.Sprintf("BAD:%s=%d,total=%d,destroyed=%d", n, v, t, d)
					return false
				}
			}
		}
		return true
	}) && gauges == "ok" {
		gauges = "BAD:unsettled"
	}
	return out + fmt.Sprintf(" || upstream_conserved=%d || gauges=%s", up, gauges)
}

func startRedisProxyLimit(seeds []string, limit uint32, events *[]string) *simProxy {
	simProxyLimit = limit
	defer func() { simProxyLimit = 0 }()
	sp := startRedisProxy(seeds, 0)
	*events = append(*events, "a", "x") // the probe connection of the launcher
	return sp
}

func runC20(r *rng) (string, string) {
	loadFactor = measureLoad() // the machine's load may have changed since the process started
	limit := []uint32{0, 0, 2, 3}[r.intn(4)]
	n := 2
	cl := newSimCluster(n)
	defer cl.close()
	cl.setLayout([][3]int{{0, 8000, 0}, {8001, 16383, 1}})
	events := []string{fmt.Sprintf("L%d", limit)}
	sp := startRedisProxyLimit([]string{cl.nodes[0].addr, cl.nodes[1].addr}, limit, &events)
	stopped := false
	defer func() {
		if !stopped {
			stopProxy(sp)
		}
	}()
	sp.waitSlotsLoaded(1)
	waitFor(2*time.Second, func() bool { return sp.counter("downstream.cx_destroy_total") >= 1 }) // the launcher's probe
	var open []*simClient
	finished := 1                                      // connections that have ended so far (the probe)
	ask := func(sc *simClient, v *wv) (string, bool) { // returns s|f, alive
		if sc.send(v.bytes(), nil) != nil {
			return "", false
		}
		rp, err := sc.recv(3 * time.Second)
		if err != nil {
			return "", false
		}
		if rp.t == '-' {
			return "f", true
		}
		return "s", true
	}
	down := map[int]bool{}
	for j, nj := 0, 3+r.intn(30); j < nj && !stopped; j++ {
		switch r.intn(12) {
		case 0, 1:
			sc := dialProxy(sp.addr)
			res, alive := ask(sc, bulkArr([]byte("ping")))
			if alive {
				events = append(events, "a", "q:ping:"+res)
				open = append(open, sc)
			} else {
				events = append(events, "r")
				sc.close()
			}
		case 2:
			if len(open) > 0 {
				i := r.intn(len(open))
				open[i].close()
				open = append(open[:i], open[i+1:]...)
				events = append(events, "x")
				finished++
				waitFor(2*time.Second, func() bool { return sp.counter("downstream.cx_destroy_total") >= uint64(finished) })
			}
		case 3:
			x := r.intn(n)
			if r.chance(1, 3) {
				// the layout changes under a stale routing table: the next requests are redirected
				lo := r.intn(16000)
				hi := lo + r.intn(16383-lo)
				cl.mu.Lock()
				for sl := lo; sl <= hi; sl++ {
					cl.owner[sl] = x
				}
				for i, nd := range cl.nodes {
					if i == x || nd.master >= 0 {
						continue
					}
					for k, v := range nd.store {
						if sl := simSlot([]byte(k)); sl >= lo && sl <= hi {
							cl.nodes[x].store[k] = v
							delete(nd.store, k)
						}
					}
				}
				cl.mu.Unlock()
			} else if r.chance(1, 4) {
				// service discovery republishes the host list (unchanged): every backend connection is replaced
				sp.p.OnSvcAllHostReplace([]*host.Host{host.New(cl.nodes[0].addr), host.New(cl.nodes[1].addr)})
			} else if r.chance(1, 2) {
				cl.nodes[x].killConns()
			} else if !down[x] && len(down) == 0 {
				down[x] = true
				cl.nodes[x].stop()
			} else if down[x] {
				delete(down, x)
				cl.nodes[x].start()
			}
			settle(30 * time.Millisecond)
		default:
			if len(open) == 0 {
				continue
			}
			sc := open[r.intn(len(open))]
			k := []byte("k" + strconv.Itoa(r.intn(12)))
			var v *wv
			name := ""
			switch r.intn(9) {
			case 0:
				v, name = bulkArr([]byte("SET"), k, []byte("1")), "set"
			case 1:
				v, name = bulkArr([]byte("get"), k), "get"
			case 2:
				v, name = bulkArr([]byte("mget"), k, []byte("k3"), []byte("k9")), "mget"
			case 3:
				v, name = bulkArr([]byte("lpush"), []byte("l"+string(k)), []byte("x")), "lpush"
			case 4:
				v, name = bulkArr([]byte("incr"), []byte("l"+string(k))), "incr" // wrong type when the list exists
			case 5:
				v, name = bulkArr([]byte("flushall")), "-"
			case 6:
				v, name = bulkArr([]byte("get")), "get" // wrong arity: answered by the proxy
			case 7:
				v, name = &wv{t: '*', a: []*wv{wBulk([]byte("get")), wInt(1)}}, "-"
			default:
				v, name = bulkArr([]byte("del"), k, []byte("k1")), "del"
			}
			res, alive := ask(sc, v)
			if alive {
				events = append(events, "q:"+name+":"+res)
			}
		}
	}
	if r.chance(1, 2) {
		// stop while connections are open: the processor closes them
		events = append(events, "S")
		stopped = true
		stopProxy(sp)
		for range open {
			events = append(events, "x")
		}
	}
	for _, sc := range open {
		sc.close()
		if !stopped {
			events = append(events, "x")
		}
	}
	// quiescence: every connection the proxy registered has been accounted as ended
	waitFor(3*time.Second, func() bool {
		return sp.gauge("downstream.cx_active") == 0 && sp.counter("downstream.cx_total") == sp.counter("downstream.cx_destroy_total")
	})
	return strings.Join(events, " "), sp.snapshot()
}

// runC20NoHosts: a service that has no endpoints yet: every keyed request fails, and is counted as one that failed
func runC20NoHosts() (string, string) {
	events := []string{"L0"}
	simProxySeq++
	name := fmt.Sprintf("sim%d", simProxySeq)
	port := freePort()
	cfg := redisConfig(port, 0, 300*time.Millisecond)
	p, err := proc.New(name, cfg, nil)
	if err != nil {
		return "L0", "NEW-FAILED"
	}
	p.Start()
	sp := &simProxy{p: p, name: name, addr: fmt.Sprintf("127.0.0.1:%d", port)}
	defer stopProxy(sp)
	var sc *simClient
	for t := 0; t < 400 && sc == nil; t++ {
		if c, err := net.DialTimeout("tcp", sp.addr, 100*time.Millisecond); err == nil {
			sc = &simClient{c: c, br: bufio.NewReaderSize(c, 64<<10)}
		} else {
			time.Sleep(5 * time.Millisecond)
		}
	}
	if sc == nil {
		return "L0", "NOT-LISTENING"
	}
	events = append(events, "a")
	for i := 0; i < 4; i++ {
		sc.send(bulkArr([]byte("get"), []byte("k"+strconv.Itoa(i))).bytes(), nil)
		rp, err := sc.recv(3 * time.Second)
		if err != nil {
			break
		}
		if rp.t == '-' {
			events = append(events, "q:get:f")
		} else {
			events = append(events, "q:get:s")
		}
	}
	sc.close()
	events = append(events, "x")
	waitFor(3*time.Second, func() bool {
		return sp.gauge("downstream.cx_active") == 0 && sp.counter("downstream.cx_total") == sp.counter("downstream.cx_destroy_total")
	})
	return strings.Join(events, " "), sp.snapshot()
}

// runC20Shared: two services whose names differ only in '.' / '_' keep their statistics in one scope (the scope name has
// every '.' replaced). The second one is created while the first has a connection open; when both are quiescent the
// equations hold for the scope - what one service has counted is not wiped or counted again by the other's creation.
func runC20Shared() (string, string) {
	cl := newSimCluster(1)
	defer cl.close()
	cl.setLayout([][3]int{{0, 16383, 0}})
	simProxySeq++
	base := fmt.Sprintf("shared%d", simProxySeq)
	events := []string{"L0"}
	get := func(sc *simClient, key string) {
		sc.send(bulkArr([]byte("get"), []byte(key)).bytes(), nil)
		rp, err := sc.recv(3 * time.Second)
		if err != nil {
			events = append(events, "NO-REPLY")
		} else if rp.t == '-' {
			events = append(events, "q:get:f")
		} else {
			events = append(events, "q:get:s")
		}
	}
	simProxyName = base + ".svc"
	a := startRedisProxy([]string{cl.nodes[0].addr}, 0)
	simProxyName = ""
	defer stopProxy(a)
	events = append(events, "a", "x") // the launcher's probe
	a.waitSlotsLoaded(1)
	waitFor(2*time.Second, func() bool { return a.counter("downstream.cx_destroy_total") >= 1 })
	c1 := dialProxy(a.addr)
	events = append(events, "a")
	get(c1, "k1")
	simProxyName = base + "_svc"
	b := startRedisProxy([]string{cl.nodes[0].addr}, 0)
	simProxyName = ""
	defer stopProxy(b)
	events = append(events, "a", "x")
	b.waitSlotsLoaded(2)
	waitFor(2*time.Second, func() bool { return a.counter("downstream.cx_destroy_total") >= 2 })
	c2 := dialProxy(b.addr)
	events = append(events, "a")
	get(c2, "k2")
	get(c1, "k3")
	c1.close()
	events = append(events, "x")
	c2.close()
	events = append(events, "x")
	waitFor(3*time.Second, func() bool {
		return a.gauge("downstream.cx_active") == 0 && a.counter("downstream.cx_total") == a.counter("downstream.cx_destroy_total")
	})
	return strings.Join(events, " "), a.snapshot()
}

// runC20TCPDial: the TCP processor is dialling a backend whose connects hang (full accept queue) when that host is removed
// from the service (or the service is stopped); the dial then completes. However the relay ends, the upstream connection
// that was counted is counted as destroyed: total = destroyed and active = 0 at quiescence.
func runC20TCPDial(stop bool) string {
	addr, release, closeBh := newSlowConnect()
	defer closeBh()
	port := freePort()
	cfg := tcpConfig(port)
	cfg.ConnectTimeout = utils.DurationPtr(4 * time.Second)
	simProxySeq++
	name := fmt.Sprintf("sim%d", simProxySeq)
	p, err := proc.New(name, cfg, []*host.Host{host.New(addr)})
	if err != nil {
		return "NEW-FAILED"
	}
	p.Start()
	sp := &simProxy{p: p, name: name, addr: fmt.Sprintf("127.0.0.1:%d", port)}
	stopped := false
	defer func() {
		if !stopped {
			stopProxy(sp)
		}
	}()
	var c net.Conn
	for t := 0; t < 400 && c == nil; t++ {
		if x, err := net.DialTimeout("tcp", sp.addr, 100*time.Millisecond); err == nil {
			c = x
		} else {
			time.Sleep(5 * time.Millisecond)
		}
	}
	if c == nil {
		return "NOT-LISTENING"
	}
	defer c.Close()
	time.Sleep(150 * time.Millisecond) // the processor is inside its dial now
	if stop {
		stopped = true
		go p.Stop()
		time.Sleep(50 * time.Millisecond)
	} else {
		p.OnSvcHostRemove([]*host.Host{host.New(addr)})
	}
	release() // the retransmitted SYN completes the connect within about a second
	// the client's connection is closed by the processor once the relay has ended
	c.SetReadDeadline(time.Now().Add(5 * time.Second))
	buf := make([]byte, 16)
	_, rerr := c.Read(buf)
	closedByProxy := rerr != nil && !strings.Contains(rerr.Error(), "timeout")
	ok := waitFor(3*time.Second, func() bool {
		return sp.counter("upstream.cx_total") == sp.counter("upstream.cx_destroy_total") && sp.gauge("upstream.cx_active") == 0
	})
	res := "conserved"
	if !ok {
		res = fmt.Sprintf("NOT-CONSERVED: upstream cx_total=%d cx_destroy=%d cx_active=%d", sp.counter("upstream.cx_total"), sp.counter("upstream.cx_destroy_total"), int64(sp.gauge("upstream.cx_active")))
	}
	if !closedByProxy {
		res += " CLIENT-LEFT-OPEN"
	}
	return res + " || upstream_conserved=1 || gauges=ok"
}

// runC20Abrupt: a client pipelines more requests than the session takes in at once (the reader is busy handing them
// on) to slow nodes and resets its connection: replies can no longer be written. Whatever was read is counted once, by
// its outcome: at quiescence the equations hold.
func runC20Abrupt(n int) string {
	cl := newSimCluster(2)
	defer cl.close()
	cl.setLayout([][3]int{{0, 8000, 0}, {8001, 16383, 1}})
	sp := startRedisProxy([]string{cl.nodes[0].addr, cl.nodes[1].addr}, 0)
	defer stopProxy(sp)
	sp.waitSlotsLoaded(1)
	waitFor(2*time.Second, func() bool { return sp.counter("downstream.cx_destroy_total") >= 1 }) // the launcher's probe
	cl.mu.Lock()
	for _, nd := range cl.nodes {
		nd.delayMs = 20
	}
	cl.mu.Unlock()
	// replies of 6000 bytes: the session's write buffer fills and is flushed while the reader is still handing requests on
	setup := dialProxy(sp.addr)
	setup.send(bulkArr([]byte("set"), []byte("abbig"), bytes.Repeat([]byte("x"), 6000)).bytes(), nil)
	setup.recv(3 * time.Second)
	setup.close()
	waitFor(2*time.Second, func() bool { return sp.counter("downstream.cx_destroy_total") >= 2 })
	sc := dialProxy(sp.addr)
	var buf []byte
	for i := 0; i < n; i++ {
		buf = append(buf, bulkArr([]byte("get"), []byte("abbig")).bytes()...)
	}
	sc.send(buf, nil)
	time.Sleep(30 * time.Millisecond)
	if tc, ok := sc.c.(*net.TCPConn); ok {
		tc.SetLinger(0)
	}
	sc.close()
	conserved := func() bool {
		t, ok, ko := sp.counter("downstream.rq_total"), sp.counter("downstream.rq_success_total"), sp.counter("downstream.rq_failure_total")
		return t == ok+ko && sp.gauge("downstream.cx_active") == 0 && sp.counter("downstream.cx_total") == sp.counter("downstream.cx_destroy_total")
	}
	// quiescence: the equations hold and nothing moves any more
	last, stable := uint64(0), time.Now()
	waitFor(4*time.Second, func() bool {
		t := sp.counter("downstream.rq_total") + sp.counter("downstream.rq_success_total") + sp.counter("downstream.rq_failure_total")
		if t != last {
			last, stable = t, time.Now()
		}
		return conserved() && time.Since(stable) > 300*time.Millisecond
	})
	snap := sp.snapshot()
	parts := strings.Split(snap, " || ")
	res := "conserved"
	if !conserved() {
		res = "NOT-CONSERVED:" + parts[0]
	}
	return res + " || " + strings.Join(parts[2:], " || ")
}

func init() {
	register("c20", func() {
		cases, impl := create("cases.txt"), create("impl.txt")
		hist := map[string]int{}
		r := newRng(*fSeed)
		for _, n := range []int{40, 70, 120} {
			fmt.Fprintf(cases, "ABRUPT %d\n", n)
			fmt.Fprintln(impl, runC20Abrupt(n))
			hist["connection reset with replies pending"]++
		}
		{
			ev, snap := runC20NoHosts()
			fmt.Fprintln(cases, ev)
			fmt.Fprintln(impl, snap)
			hist["a service without endpoints"]++
		}
		for _, stop := range []bool{false, true} {
			fmt.Fprintf(cases, "ABRUPT tcp-dial stop=%v\n", stop)
			fmt.Fprintln(impl, runC20TCPDial(stop))
			hist["TCP: host removed / service stopped during the dial"]++
		}
		{
			ev, snap := runC20Shared()
			fmt.Fprintln(cases, ev)
			fmt.Fprintln(impl, snap)
			hist["two services sharing one statistics scope"]++
		}
		for i := 0; i < *fN; i++ {
			if expired() {
				hist["stopped at the deadline"] = 1
				break
			}
			ev, snap := runC20(r)
			fmt.Fprintln(cases, ev)
			fmt.Fprintln(impl, snap)
			hist[fmt.Sprintf("events<=%d", bucket(len(strings.Fields(ev))))]++
			if strings.Contains(ev, " S") {
				hist["stopped with the history"]++
			}
			if strings.Contains(ev, " r") {
				hist["with refused connections"]++
			}
		}
		writeHist(hist)
	})
}
