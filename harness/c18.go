package main

import (
	"encoding/hex"
	"fmt"
	"strconv"
	"strings"
	"time"

	redis "github.com/samaritan-proxy/samaritan/proc/redis"
)

func scanHosts(n int) []string {
	hs := make([]string, n)
	for i := range hs {
		hs[i] = fmt.Sprintf("n%05d:1", i)
	}
	return hs
}

type scanEntry struct {
	cur, next uint64
	keys      [][]byte
}

func init() {
	// ---- single SCAN calls with a scripted node reply ----
	register("c18step", func() {
		cases, impl := create("cases.txt"), create("impl.txt")
		hist := map[string]int{}
		envs := map[int]*redis.VerifEnv{}
		var scripted *redis.RespValue
		getEnv := func(n int) *redis.VerifEnv {
			if e, ok := envs[n]; ok {
				return e
			}
			e := redis.VerifNewEnv(scanHosts(n), 0, nil)
			e.SetAnswer(func(addr string, body *redis.RespValue) *redis.RespValue { return scripted })
			envs[n] = e
			return e
		}
		emit := func(n int, req, nodeReply *redis.RespValue) {
			fmt.Fprintf(cases, "%d | %s | %s\n", n, valString(req), valString(nodeReply))
			e := getEnv(n)
			scripted = nodeReply
			reply, timedOut := envDo(e, req, 2*time.Second)
			out := ""
			switch {
			case len(e.Panics()) > 0:
				out = "PANIC"
			case timedOut:
				out = "TIMEOUT"
			default:
				out = valString(reply)
			}
			var subs []string
			for _, s := range e.Sent() {
				subs = append(subs, s.Addr+"="+strings.ReplaceAll(valString(s.Body), " ", "_"))
			}
			fmt.Fprintln(impl, out+" | "+strings.Join(subs, " "))
		}
		if *fIn != "" {
			for _, l := range readLines(*fIn) {
				f := strings.Split(l, " | ")
				n, _ := strconv.Atoi(f[0])
				p := 0
				req := parseVal(strings.Split(f[1], " "), &p)
				p = 0
				rp := parseVal(strings.Split(f[2], " "), &p)
				emit(n, req, rp)
			}
			writeHist(hist)
			return
		}
		r := newRng(*fSeed)
		curs := []uint64{0, 1, 2, 17, 1<<47 - 1, 1 << 47, 1<<47 + 3, 1<<48 - 1, 1 << 48, 1<<48 + 5, 3<<48 + 9, 1<<63 - 1, 1 << 63, 1<<64 - 1}
		genCursor := func() []byte {
			switch r.intn(8) {
			case 0:
				return []byte(strconv.FormatUint(curs[r.intn(len(curs))], 10))
			case 1: // node index around the host count
				return []byte(strconv.FormatUint(uint64(r.intn(9))<<48|uint64(r.intn(5)), 10))
			case 2:
				return []byte(strconv.FormatInt(-int64(r.intn(5)), 10))
			case 3:
				return []byte("x" + strconv.Itoa(r.intn(9)))
			case 4:
				return []byte(strconv.FormatUint(r.u64()>>uint(r.intn(64)), 10))
			default:
				return []byte(strconv.FormatUint(uint64(r.intn(6))<<48|(r.u64()>>16), 10))
			}
		}
		genNodeReply := func() *redis.RespValue {
			switch r.intn(12) {
			case 0:
				return &redis.RespValue{Type: redis.Error, Text: []byte("ERR scan failed")}
			case 1:
				return &redis.RespValue{Type: redis.BulkString, Text: []byte("17")}
			case 2:
				return arr(bulk("notanumber"), *arr(bulk("k")))
			case 3:
				return arr(redis.RespValue{Type: redis.Integer, Int: 5}, *arr())
			default:
				nc := curs[r.intn(len(curs))]
				if r.chance(1, 2) {
					nc = r.u64() >> uint(16+r.intn(48))
				}
				if r.chance(1, 4) {
					nc = 0
				}
				var ks []redis.RespValue
				for i, n := 0, r.intn(4); i < n; i++ {
					ks = append(ks, bulkB(genKey(r)))
				}
				return arr(bulk(strconv.FormatUint(nc, 10)), *arr(ks...))
			}
		}
		for i := 0; i < *fN; i++ {
			n := 1 + r.intn(5)
			vs := []redis.RespValue{bulk([]string{"scan", "SCAN", "ScAn"}[r.intn(3)])}
			if !r.chance(1, 15) {
				vs = append(vs, bulkB(genCursor()))
			}
			if r.chance(1, 2) {
				vs = append(vs, bulk("MATCH"), bulkB(genKey(r)))
			}
			if r.chance(1, 2) {
				cnt := 1 + r.intn(100)
				if r.chance(1, 4) {
					cnt = []int{999, 1000, 1001, 5000, 10000, 10001, 65536, 1000000}[r.intn(8)]
				}
				vs = append(vs, bulk("COUNT"), bulk(strconv.Itoa(cnt)))
			}
			if r.chance(1, 5) {
				// options as clients mistype them: a name without its value, values that are no numbers, huge or negative, unknown names
				tails := [][]string{{"COUNT"}, {"MATCH"}, {"count"}, {"TYPE"}, {"COUNT", "abc"}, {"COUNT", "-5"}, {"COUNT", "0"}, {"COUNT", "99999999999999999999"},
					{"COUNT", "1000000"}, {"COUNT", ""}, {"FOO", "bar"}, {"MATCH", "*", "COUNT"}, {"COUNT", "10", "COUNT"}, {"TYPE", "string", "MATCH"}}
				for _, x := range tails[r.intn(len(tails))] {
					vs = append(vs, bulk(x))
				}
				hist["mistyped options"]++
			}
			hist[fmt.Sprintf("hosts=%d", n)]++
			emit(n, arr(vs...), genNodeReply())
		}
		for _, e := range envs {
			e.Close()
		}
		writeHist(hist)
	})

	// ---- a client iterating from cursor 0 over scripted nodes ----
	register("c18iter", func() {
		cases, impl := create("cases.txt"), create("impl.txt")
		hist := map[string]int{}
		run := func(nodes [][]scanEntry, extra []string) {
			var ns []string
			for _, nd := range nodes {
				var es []string
				for _, e := range nd {
					var ks []string
					for _, k := range e.keys {
						ks = append(ks, hex.EncodeToString(k))
					}
					es = append(es, fmt.Sprintf("%d:%d:%s", e.cur, e.next, strings.Join(ks, ",")))
				}
				ns = append(ns, strings.Join(es, "/"))
			}
			fmt.Fprintf(cases, "%s | %s\n", strings.Join(ns, ";"), strings.Join(extra, " "))
			hosts := scanHosts(len(nodes))
			idxOf := map[string]int{}
			for i, h := range hosts {
				idxOf[h] = i
			}
			e := redis.VerifNewEnv(hosts, 0, nil)
			defer e.Close()
			var hits []string
			passthrough := true
			// the routing table is loaded (the slots spread evenly over the nodes): what SCAN does must not depend on it
			var nodesText strings.Builder
			for i, h := range hosts {
				lo, hi := i*16384/len(hosts), (i+1)*16384/len(hosts)-1
				fmt.Fprintf(&nodesText, "%040d %s@1%d master - 0 0 %d connected %d-%d\n", i+1, h, i, i+1, lo, hi)
			}
			e.SetAnswer(func(addr string, body *redis.RespValue) *redis.RespValue {
				if lowerASCII(body.Array[0].Text) == "cluster" {
					return &redis.RespValue{Type: redis.BulkString, Text: []byte(nodesText.String())}
				}
				i := idxOf[addr]
				c, _ := strconv.ParseUint(string(body.Array[1].Text), 10, 64)
				hits = append(hits, fmt.Sprintf("%d:%d", i, c))
				if len(body.Array)-2 != len(extra) {
					passthrough = false
				} else {
					for j, x := range extra {
						if string(body.Array[2+j].Text) != x {
							passthrough = false
						}
					}
				}
				for _, en := range nodes[i] {
					if en.cur == c {
						var ks []redis.RespValue
						for _, k := range en.keys {
							ks = append(ks, bulkB(k))
						}
						return arr(bulk(strconv.FormatUint(en.next, 10)), *arr(ks...))
					}
				}
				return arr(bulk("0"), *arr())
			})
			slotsLoaded := e.LoadSlots() == nil && e.SlotOwner(0) == hosts[0]
			e.Sent()
			cursor := "0"
			var keys []string
			steps := 0
			status := "done"
			if !slotsLoaded {
				status = "SLOTS-NOT-LOADED"
			}
			for {
				vs := []redis.RespValue{bulk("scan"), bulk(cursor)}
				for _, x := range extra {
					vs = append(vs, bulk(x))
				}
				reply, timedOut := envDo(e, arr(vs...), 2*time.Second)
				steps++
				if len(e.Panics()) > 0 {
					status = "PANIC"
					break
				}
				if timedOut || reply == nil || reply.Type != redis.Array || len(reply.Array) != 2 {
					status = "BADREPLY:" + valString(reply)
					break
				}
				for _, k := range reply.Array[1].Array {
					keys = append(keys, hex.EncodeToString(k.Text))
				}
				cursor = string(reply.Array[0].Text)
				if cursor == "0" {
					break
				}
				if steps > 5000 {
					status = "NONTERMINATING"
					break
				}
			}
			if !passthrough {
				status += " args-not-passed-through"
			}
			fmt.Fprintf(impl, "%s keys=%s hits=%s steps=%d\n", status, strings.Join(keys, ","), strings.Join(hits, ","), steps)
			hist[fmt.Sprintf("nodes=%d", len(nodes))]++
		}
		if *fIn != "" {
			die("c18iter replay: use the seed")
		}
		r := newRng(*fSeed)
		for i := 0; i < *fN; i++ {
			nn := 1 + r.intn(6)
			// half of the cases: keys with two brace pairs - the first one (the hash tag, different on every node) decides
			// where the key lives, the second one is shared by all keys; patterns with a glob in front of a literal
			// "{a}" match all of them, on every node
			tagged := r.chance(1, 2)
			var nodes [][]scanEntry
			for j := 0; j < nn; j++ {
				var nd []scanEntry
				m := r.intn(5) // chain length
				used := map[uint64]bool{0: true}
				cur := uint64(0)
				for s := 0; s <= m; s++ {
					next := uint64(0)
					if s < m {
						for used[next] {
							switch r.intn(4) {
							case 0:
								next = uint64(1 + r.intn(50))
							case 1:
								next = 1<<47 + uint64(r.intn(1000)) // at and above 2^47
							case 2:
								next = 1<<48 - 1 - uint64(r.intn(3))
							default:
								next = r.u64() >> 16
							}
						}
						used[next] = true
					}
					var ks [][]byte
					for k, nk := 0, r.intn(4); k < nk; k++ {
						if tagged {
							ks = append(ks, []byte(fmt.Sprintf("n{%d}-%d-%d{a}", j, s, k)))
						} else {
							ks = append(ks, []byte(fmt.Sprintf("n%d-%d-%d", j, s, k)))
						}
					}
					nd = append(nd, scanEntry{cur, next, ks})
					cur = next
				}
				nodes = append(nodes, nd)
			}
			var extra []string
			if r.chance(1, 2) {
				if tagged {
					extra = append(extra, "MATCH", []string{"n*", "*{a}*", "*{a}", "n{?}*{a}", "?{*}*{a}"}[r.intn(5)])
				} else {
					extra = append(extra, "MATCH", "n*")
				}
			}
			if r.chance(1, 2) {
				extra = append(extra, "COUNT", strconv.Itoa(1+r.intn(50)))
			}
			run(nodes, extra)
		}
		writeHist(hist)
	})
}
