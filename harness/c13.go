package main

import (
	"bytes"
	"encoding/hex"
	"fmt"
	"io"
	"os"
	"sort"
	"strconv"
	"strings"
	"sync"
	"time"

	redis "github.com/samaritan-proxy/samaritan/proc/redis"
	"github.com/samaritan-proxy/samaritan/proc/redis/compressor"
)

func snappyComp(v []byte) []byte {
	var b bytes.Buffer
	w, err := compressor.NewWriter("SNAPPY", &b)
	if err != nil {
		die("compressor: %v", err)
	}
	w.Write(v)
	w.Close()
	return b.Bytes()
}

func snappyDecomp(z []byte) ([]byte, bool) {
	r, err := compressor.NewReader("SNAPPY", bytes.NewReader(z))
	if err != nil {
		return nil, false
	}
	d, err := io.ReadAll(r)
	if err != nil {
		return nil, false
	}
	return d, true
}

// ---- the fake backend store; mirrors backend_exec of coq/Model/Compress.v ----
type kval struct {
	str    []byte
	isHash bool
	fields [][2][]byte
}
type kstore struct {
	keys []string
	m    map[string]*kval
}

func newStore() *kstore { return &kstore{m: map[string]*kval{}} }
func (s *kstore) put(k string, v *kval) {
	if _, ok := s.m[k]; !ok {
		s.keys = append(s.keys, k)
	}
	s.m[k] = v
}
func (v *kval) hget(f []byte) ([]byte, bool) {
	for _, fv := range v.fields {
		if bytes.Equal(fv[0], f) {
			return fv[1], true
		}
	}
	return nil, false
}
func (v *kval) hput(f, x []byte) {
	for i, fv := range v.fields {
		if bytes.Equal(fv[0], f) {
			v.fields[i][1] = x
			return
		}
	}
	v.fields = append(v.fields, [2][]byte{f, x})
}

func rErr(s string) *redis.RespValue { return &redis.RespValue{Type: redis.Error, Text: []byte(s)} }
func rInt(i int64) *redis.RespValue  { return &redis.RespValue{Type: redis.Integer, Int: i} }
func rBulk(b []byte) *redis.RespValue {
	if b == nil {
		return &redis.RespValue{Type: redis.BulkString}
	}
	return &redis.RespValue{Type: redis.BulkString, Text: append([]byte{}, b...)}
}

func (s *kstore) exec(body *redis.RespValue) *redis.RespValue {
	a := body.Array
	arg := func(i int) []byte {
		if i < len(a) && a[i].Text != nil {
			return a[i].Text
		}
		return []byte{}
	}
	name := lowerASCII(arg(0))
	k := string(arg(1))
	n := len(a)
	ok := &redis.RespValue{Type: redis.SimpleString, Text: []byte("OK")}
	cp := func(b []byte) []byte { return append([]byte{}, b...) }
	switch name {
	case "set":
		if n < 3 {
			return rErr("ERR args")
		}
		s.put(k, &kval{str: cp(arg(2))})
		return ok
	case "setex", "psetex":
		if n < 4 {
			return rErr("ERR args")
		}
		s.put(k, &kval{str: cp(arg(3))})
		return ok
	case "setnx":
		if n < 3 {
			return rErr("ERR args")
		}
		if _, ex := s.m[k]; ex {
			return rInt(0)
		}
		s.put(k, &kval{str: cp(arg(2))})
		return rInt(1)
	case "getset":
		if n < 3 {
			return rErr("ERR args")
		}
		old, ex := s.m[k]
		if ex && old.isHash {
			return rErr("WRONGTYPE")
		}
		s.put(k, &kval{str: cp(arg(2))})
		if !ex {
			return rBulk(nil)
		}
		return rBulk(old.str)
	case "get":
		v, ex := s.m[k]
		if !ex {
			return rBulk(nil)
		}
		if v.isHash {
			return rErr("WRONGTYPE")
		}
		return rBulk(v.str)
	case "hset", "hmset":
		if n < 4 {
			return rErr("ERR args")
		}
		v, ex := s.m[k]
		if ex && !v.isHash {
			return rErr("WRONGTYPE")
		}
		if !ex {
			v = &kval{isHash: true}
			s.put(k, v)
		}
		for i := 2; i+1 < n; i += 2 {
			v.hput(cp(arg(i)), cp(arg(i+1)))
		}
		if name == "hmset" {
			return ok
		}
		if ex {
			return rInt(0)
		}
		return rInt(1)
	case "hsetnx":
		if n < 4 {
			return rErr("ERR args")
		}
		v, ex := s.m[k]
		if ex && !v.isHash {
			return rErr("WRONGTYPE")
		}
		if !ex {
			v = &kval{isHash: true}
			s.put(k, v)
		}
		if _, has := v.hget(arg(2)); has {
			return rInt(0)
		}
		v.hput(cp(arg(2)), cp(arg(3)))
		return rInt(1)
	case "hget":
		v, ex := s.m[k]
		if !ex {
			return rBulk(nil)
		}
		if !v.isHash {
			return rErr("WRONGTYPE")
		}
		x, has := v.hget(arg(2))
		if !has {
			return rBulk(nil)
		}
		return rBulk(x)
	case "hmget":
		v, ex := s.m[k]
		if ex && !v.isHash {
			return rErr("WRONGTYPE")
		}
		out := []redis.RespValue{}
		for i := 2; i < n; i++ {
			if ex {
				if x, has := v.hget(arg(i)); has {
					out = append(out, *rBulk(x))
					continue
				}
			}
			out = append(out, *rBulk(nil))
		}
		return &redis.RespValue{Type: redis.Array, Array: out}
	case "hgetall":
		v, ex := s.m[k]
		if ex && !v.isHash {
			return rErr("WRONGTYPE")
		}
		out := []redis.RespValue{}
		if ex {
			for _, fv := range v.fields {
				out = append(out, *rBulk(fv[0]), *rBulk(fv[1]))
			}
		}
		return &redis.RespValue{Type: redis.Array, Array: out}
	case "hscan": // cursor 0, everything in one page: a nested array
		v, ex := s.m[k]
		if ex && !v.isHash {
			return rErr("WRONGTYPE")
		}
		out := []redis.RespValue{}
		if ex {
			for _, fv := range v.fields {
				out = append(out, *rBulk(fv[0]), *rBulk(fv[1]))
			}
		}
		return &redis.RespValue{Type: redis.Array, Array: []redis.RespValue{*rBulk([]byte("0")), {Type: redis.Array, Array: out}}}
	}
	return rErr("ERR unknown")
}

func (s *kstore) dump() string {
	var out []string
	for _, k := range s.keys {
		v := s.m[k]
		if v.isHash {
			var fs []string
			for _, fv := range v.fields {
				fs = append(fs, hex.EncodeToString(fv[0])+">"+hex.EncodeToString(fv[1]))
			}
			out = append(out, hex.EncodeToString([]byte(k))+"=H"+strings.Join(fs, ","))
		} else {
			out = append(out, hex.EncodeToString([]byte(k))+"=S"+hex.EncodeToString(v.str))
		}
	}
	sort.Strings(out)
	return strings.Join(out, ";")
}

func init() {
	// ---- concurrent writers: several backend connections compress at the same time ----
	register("c13conc", func() {
		cases, impl := create("cases.txt"), create("impl.txt")
		hist := map[string]int{}
		r := newRng(*fSeed)
		rounds := *fN
		for round := 0; round < rounds; round++ {
			workers := 2 + r.intn(7)
			per := 20 + r.intn(60)
			thr := []int{8, 16, 64}[r.intn(3)]
			sub := int64(r.u64() >> 1)
			fmt.Fprintf(cases, "%d %d %d %d\n", sub, workers, per, thr)
			seeds := make([]string, workers)
			for i := range seeds {
				seeds[i] = fmt.Sprintf("10.8.0.%d:7000", i+1)
			}
			env := redis.VerifNewEnv(seeds, 0, &redis.VerifCompression{Enable: true, Threshold: uint32(thr)})
			var mu sync.Mutex
			stored := map[string][]byte{}
			env.SetAnswer(func(addr string, body *redis.RespValue) *redis.RespValue {
				name := lowerASCII(body.Array[0].Text)
				mu.Lock()
				defer mu.Unlock()
				switch name {
				case "set":
					stored[string(body.Array[1].Text)] = append([]byte{}, body.Array[2].Text...)
					return &redis.RespValue{Type: redis.SimpleString, Text: []byte("OK")}
				case "get":
					// a third of the keys have moved: any node but their new home redirects, so the reply of one backend
					// connection is handled on another one's reader while that one handles its own replies
					key := body.Array[1].Text
					h := 0
					for _, c := range key {
						h = h*31 + int(c)
					}
					if h%3 == 0 && workers > 1 {
						if home := seeds[(h/3)%workers]; addr != home {
							return &redis.RespValue{Type: redis.Error, Text: []byte("MOVED 1 " + home)}
						}
					}
					v, ok := stored[string(key)]
					if !ok {
						return rBulk(nil)
					}
					return rBulk(v)
				}
				return &redis.RespValue{Type: redis.SimpleString, Text: []byte("OK")}
			})
			var wg sync.WaitGroup
			bad := make(chan string, workers*per)
			for w := 0; w < workers; w++ {
				wg.Add(1)
				go func(w int) {
					defer wg.Done()
					rr := newRng(sub + int64(w))
					for i := 0; i < per; i++ {
						key := fmt.Sprintf("w%d-%d", w, i)
						n := thr + rr.intn(300)
						val := make([]byte, n)
						c := byte('a' + (w*7+i)%26)
						for j := range val {
							val[j] = c
							if rr.chance(1, 9) {
								val[j] = byte('0' + rr.intn(10))
							}
						}
						want := append([]byte{}, val...)
						env.Do(arr(bulk("set"), bulk(key), bulkB(val)), 2*time.Second)
						reply, _ := env.Do(arr(bulk("get"), bulk(key)), 2*time.Second)
						if reply == nil || !bytes.Equal(reply.Text, want) {
							if os.Getenv("VERIF_DEBUG") != "" && reply != nil {
								fmt.Fprintf(os.Stderr, "key %s want(%d) %q got(%d) %q\n", key, len(want), want[:imin(len(want), 40)], len(reply.Text), reply.Text[:imin(len(reply.Text), 40)])
							}
							bad <- key
						}
					}
				}(w)
			}
			wg.Wait()
			close(bad)
			var bs []string
			for k := range bad {
				bs = append(bs, k)
			}
			env.Close()
			if len(bs) == 0 {
				fmt.Fprintln(impl, "ok")
			} else {
				sort.Strings(bs)
				fmt.Fprintf(impl, "readback-mismatch %d first=%s\n", len(bs), bs[0])
			}
			hist[fmt.Sprintf("workers=%d", workers)]++
		}
		writeHist(hist)
	})

	register("c13", func() {
		cases, impl := create("cases.txt"), create("impl.txt")
		hist := map[string]int{}
		seeds := []string{"10.9.0.1:7000", "10.9.0.2:7000"}
		runCase := func(ops [][]string) {
			env := redis.VerifNewEnv(seeds, 0, &redis.VerifCompression{Enable: false, Threshold: 0})
			defer env.Close()
			store := newStore()
			pendingMoved := false
			var smu sync.Mutex // the children of an MSET reach different backends concurrently
			env.SetAnswer(func(addr string, body *redis.RespValue) *redis.RespValue {
				smu.Lock()
				defer smu.Unlock()
				name := lowerASCII(body.Array[0].Text)
				if name == "readonly" || name == "asking" {
					return &redis.RespValue{Type: redis.SimpleString, Text: []byte("OK")}
				}
				if pendingMoved {
					pendingMoved = false
					other := seeds[0]
					if addr == seeds[0] {
						other = seeds[1]
					}
					return rErr("MOVED 1 " + other)
				}
				return store.exec(body)
			})
			oracle := map[string]bool{}
			var vals [][]byte
			note := func(v []byte) {
				if !oracle[string(v)] {
					oracle[string(v)] = true
					vals = append(vals, v)
				}
			}
			var outs []string
			cfgUpdates := 0
			for _, op := range ops {
				switch op[0] {
				case "cfg":
					en := op[1] == "1"
					thr, _ := strconv.Atoi(op[2])
					// alternately in place and as a configuration update from discovery does it (a new section object)
					cfgUpdates++
					if cfgUpdates%2 == 0 {
						env.SetCompression(en, uint32(thr))
					} else {
						env.UpdateCompression(en, uint32(thr))
					}
					outs = append(outs, "cfg")
				case "w", "r":
					pendingMoved = op[0] == "w" && op[1] == "1"
					var vs []redis.RespValue
					for _, h := range op[2:] {
						b, _ := hex.DecodeString(h)
						vs = append(vs, bulkB(b))
						note(append([]byte{}, b...)) // the filter compresses in place
					}
					reply, timedOut := envDo(env, arr(vs...), 2*time.Second)
					pendingMoved = false
					switch {
					case len(env.Panics()) > 0:
						outs = append(outs, "PANIC")
					case timedOut:
						outs = append(outs, "TIMEOUT")
					default:
						outs = append(outs, strings.ReplaceAll(valString(reply), " ", "_"))
					}
					env.Sent()
				}
			}
			// the compressor oracle for the model: comp(v) for every argument value, and what the
			// decompressor makes of the tail of every value that starts with the header
			var orc []string
			for _, v := range vals {
				orc = append(orc, "c"+hex.EncodeToString(v)+"="+hex.EncodeToString(snappyComp(v)))
				if len(v) >= 6 && string(v[:3]) == "(P$" {
					if d, ok := snappyDecomp(v[6:]); ok {
						orc = append(orc, "d"+hex.EncodeToString(v[6:])+"="+hex.EncodeToString(d))
					}
				}
			}
			var os []string
			for _, op := range ops {
				os = append(os, strings.Join(op, ","))
			}
			fmt.Fprintf(cases, "%s | %s\n", strings.Join(os, " "), strings.Join(orc, " "))
			fmt.Fprintf(impl, "%s | %s\n", strings.Join(outs, " "), store.dump())
		}
		if *fIn != "" {
			for _, l := range readLines(*fIn) {
				var ops [][]string
				for _, o := range strings.Split(strings.Split(l, " | ")[0], " ") {
					ops = append(ops, strings.Split(o, ","))
				}
				runCase(ops)
			}
			writeHist(hist)
			return
		}
		r := newRng(*fSeed)
		hx := func(b []byte) string { return hex.EncodeToString(b) }
		genValue := func(thr int) []byte {
			n := thr + r.intn(9) - 4
			switch r.intn(6) {
			case 0:
				n = r.intn(8)
			case 1:
				n = thr*2 + r.intn(50)
			case 2:
				n = 200 + r.intn(2000)
			}
			if r.chance(1, 25) {
				n = 4000 + r.intn(120000) // large: very redundant ones shrink a hundredfold, and their compressed form is compressible again
			}
			if n < 0 {
				n = 0
			}
			b := make([]byte, n)
			kind := r.intn(5)
			if n >= 4000 && r.chance(1, 2) {
				kind = 0
			}
			switch kind {
			case 0: // constant
				c := byte('0' + r.intn(3))
				for i := range b {
					b[i] = c
				}
			case 1: // short period
				for i := range b {
					b[i] = "abcab\r\n"[i%7]
				}
			case 2: // random: incompressible
				copy(b, r.bytes(n))
			case 3: // mildly compressible
				for i := range b {
					b[i] = byte('a' + r.intn(3))
				}
			default: // looks like a header, or is one, followed by anything
				for i := range b {
					b[i] = byte('x')
				}
				copy(b, "(P$\x00\r\n")
				if r.chance(1, 2) && n > 5 {
					b[4] = 'q'
				}
			}
			return b
		}
		keys := []string{"k1", "k2", "{t}a", "{t}b", "h1"}
		fields := []string{"f1", "f2", "f3"}
		for i := 0; i < *fN; i++ {
			var ops [][]string
			thr := []int{0, 1, 8, 16, 64, 100, 1000}[r.intn(7)]
			ops = append(ops, []string{"cfg", strconv.Itoa(r.intn(2)), strconv.Itoa(thr)})
			for j, nj := 0, 2+r.intn(10); j < nj; j++ {
				k := keys[r.intn(len(keys))]
				mv := "0"
				if r.chance(1, 3) {
					mv = "1"
				}
				switch r.intn(17) {
				case 0:
					thr = []int{0, 1, 8, 16, 64, 100, 1000}[r.intn(7)]
					ops = append(ops, []string{"cfg", strconv.Itoa(r.intn(2)), strconv.Itoa(thr)})
				case 1, 2, 3:
					name := []string{"set", "SET", "setnx", "getset", "GetSet"}[r.intn(5)]
					ops = append(ops, []string{"w", mv, hx([]byte(name)), hx([]byte(k)), hx(genValue(thr))})
				case 4:
					name := []string{"setex", "psetex"}[r.intn(2)]
					ops = append(ops, []string{"w", mv, hx([]byte(name)), hx([]byte(k)), hx([]byte("100")), hx(genValue(thr))})
				case 5:
					op := []string{"w", mv, hx([]byte("mset"))}
					// distinct keys: the children of one MSET run concurrently on different backends
					perm := r.intn(len(keys))
					for a, na := 0, 1+r.intn(3); a < na; a++ {
						op = append(op, hx([]byte(keys[(perm+a)%len(keys)])), hx(genValue(thr)))
					}
					ops = append(ops, op)
				case 6, 7:
					name := []string{"hset", "hsetnx"}[r.intn(2)]
					ops = append(ops, []string{"w", mv, hx([]byte(name)), hx([]byte(k)), hx([]byte(fields[r.intn(3)])), hx(genValue(thr))})
				case 8:
					op := []string{"w", mv, hx([]byte("hmset")), hx([]byte(k))}
					for a, na := 0, 1+r.intn(3); a < na; a++ {
						op = append(op, hx([]byte(fields[r.intn(3)])), hx(genValue(thr)))
					}
					ops = append(ops, op)
				case 9: // banned under compression
					name := []string{"append", "setrange", "getrange", "setbit", "getbit", "eval"}[r.intn(6)]
					ops = append(ops, []string{"w", "0", hx([]byte(name)), hx([]byte(k)), hx([]byte("1")), hx([]byte("2"))})
				case 10, 11:
					ops = append(ops, []string{"r", "0", hx([]byte("get")), hx([]byte(k))})
				case 12:
					op := []string{"r", "0", hx([]byte("mget"))}
					for a, na := 0, 1+r.intn(3); a < na; a++ {
						op = append(op, hx([]byte(keys[r.intn(len(keys))])))
					}
					ops = append(ops, op)
				case 13:
					ops = append(ops, []string{"r", "0", hx([]byte("hget")), hx([]byte(k)), hx([]byte(fields[r.intn(3)]))})
				case 14:
					ops = append(ops, []string{"r", "0", hx([]byte("hmget")), hx([]byte(k)), hx([]byte(fields[r.intn(3)])), hx([]byte(fields[r.intn(3)]))})
				case 15:
					ops = append(ops, []string{"r", "0", hx([]byte("hscan")), hx([]byte(k)), hx([]byte("0"))})
				default:
					ops = append(ops, []string{"r", "0", hx([]byte("hgetall")), hx([]byte(k))})
				}
			}
			hist[fmt.Sprintf("ops<=%d", bucket(len(ops)))]++
			runCase(ops)
		}
		writeHist(hist)
	})
}

func imin(a, b int) int {
	if a < b {
		return a
	}
	return b
}
