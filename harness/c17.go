package main

import (
	"encoding/hex"
	"fmt"
	"net"
	"os"
	"strconv"
	"strings"
	"sync"
	"sync/atomic"
	"syscall"
	"time"

	hr "github.com/samaritan-proxy/samaritan/cmd/samaritan/hotrestart"
)

var c17seq int32

// a connected pair of unix stream sockets (abstract namespace)
func unixPair() (a, b *net.UnixConn) {
	name := fmt.Sprintf("@verif_c17_%d_%d", os.Getpid(), atomic.AddInt32(&c17seq, 1))
	lis, err := net.Listen("unix", name)
	if err != nil {
		die("listen: %v", err)
	}
	defer lis.Close()
	ch := make(chan net.Conn, 1)
	go func() { c, _ := lis.Accept(); ch <- c }()
	c1, err := net.Dial("unix", name)
	if err != nil {
		die("dial: %v", err)
	}
	c2 := <-ch
	return c1.(*net.UnixConn), c2.(*net.UnixConn)
}

func readFrameImpl(raw []byte) (out string) {
	a, b := unixPair()
	defer a.Close()
	defer b.Close()
	if _, err := a.Write(raw); err != nil {
		return "writeerr"
	}
	defer func() {
		if r := recover(); r != nil {
			out = "PANIC"
		}
	}()
	b.SetReadDeadline(time.Now().Add(2 * time.Second))
	t, d, err := hr.VerifReadMessage(b)
	if err != nil {
		switch err.Error() {
		case "invalid header":
			return "err InvalidHeader"
		case "incomplete data":
			return "err Incomplete"
		}
		return "err other:" + err.Error()
	}
	return fmt.Sprintf("ok %d %s", t, hex.EncodeToString(d))
}

func sendFrameImpl(t uint8, data []byte) (out string) {
	a, b := unixPair()
	defer a.Close()
	defer b.Close()
	defer func() {
		if r := recover(); r != nil {
			out = "PANIC"
		}
	}()
	done := make(chan []byte, 1)
	want := 3 + len(data)%65536
	go func() {
		var got []byte
		buf := make([]byte, 1<<17)
		b.SetReadDeadline(time.Now().Add(500 * time.Millisecond))
		for len(got) < want {
			n, err := b.Read(buf)
			got = append(got, buf[:n]...)
			if err != nil {
				break
			}
		}
		done <- got
	}()
	if err := hr.VerifSendMessage(a, t, data); err != nil {
		return "senderr " + err.Error()
	}
	return hex.EncodeToString(<-done)
}

// scripted Instance
type recInst struct {
	id    int
	mu    sync.Mutex
	calls []string
}

func (r *recInst) rec(s string)       { r.mu.Lock(); r.calls = append(r.calls, s); r.mu.Unlock() }
func (r *recInst) ID() int            { return r.id }
func (r *recInst) ParentID() int      { return 0 }
func (r *recInst) ShutdownAdmin()     { r.rec("ShutdownAdmin") }
func (r *recInst) DrainListeners()    { r.rec("DrainListeners") }
func (r *recInst) ShutdownLocalConf() { r.rec("ShutdownLocalConf") }
func (r *recInst) Shutdown()          { r.rec("Shutdown") }

// children: list of children, each a list of raw byte strings written one at a time in lock step
func dispatchImpl(children [][][]byte) string {
	id := 700000 + int(atomic.AddInt32(&c17seq, 1))
	inst := &recInst{id: id}
	restore := hr.VerifSetKill(func(pid int, sig syscall.Signal) error { inst.rec("kill"); return nil })
	defer restore()
	r, err := hr.New(inst)
	if err != nil {
		return "newerr " + err.Error()
	}
	var outs []string
	for _, child := range children {
		c, err := net.Dial("unix", hr.VerifSockName(id))
		if err != nil {
			outs = append(outs, "dialerr")
			continue
		}
		uc := c.(*net.UnixConn)
		var replies []string
		for _, raw := range child {
			if _, err := uc.Write(raw); err != nil {
				replies = append(replies, "writeerr")
				continue
			}
			buf := make([]byte, 8192)
			uc.SetReadDeadline(time.Now().Add(300 * time.Millisecond))
			n, err := uc.Read(buf)
			if err != nil {
				replies = append(replies, "noreply")
				continue
			}
			replies = append(replies, hex.EncodeToString(buf[:n]))
		}
		uc.Close()
		outs = append(outs, strings.Join(replies, ","))
	}
	// let the parent notice the last close, then stop it
	time.Sleep(20 * time.Millisecond)
	stopped := make(chan struct{})
	go func() { r.Instance = inst; r.Shutdown(); close(stopped) }()
	select {
	case <-stopped:
	case <-time.After(3 * time.Second):
		outs = append(outs, "SHUTDOWN-HUNG")
	}
	inst.mu.Lock()
	calls := strings.Join(inst.calls, ",")
	inst.mu.Unlock()
	return strings.Join(outs, "|") + " calls=" + calls
}

func frameBytes(t int, payload []byte) []byte {
	l := len(payload)
	return append([]byte{byte(t), byte(l >> 8), byte(l)}, payload...)
}

func init() {
	// ---- frames: readMessage on raw bytes, sendMessage bytes ----
	register("c17frame", func() {
		cases, impl := create("cases.txt"), create("impl.txt")
		hist := map[string]int{}
		rd := func(raw []byte) {
			hist["read"]++
			fmt.Fprintln(cases, "r "+hex.EncodeToString(raw))
			fmt.Fprintln(impl, readFrameImpl(raw))
		}
		sd := func(t int, data []byte) {
			hist["send"]++
			fmt.Fprintf(cases, "s %d %s\n", t, hex.EncodeToString(data))
			fmt.Fprintln(impl, sendFrameImpl(uint8(t), data))
		}
		if *fIn != "" {
			for _, l := range readLines(*fIn) {
				f := strings.Split(l, " ")
				if f[0] == "r" {
					b, _ := hex.DecodeString(f[1])
					rd(b)
				} else {
					t, _ := strconv.Atoi(f[1])
					b, _ := hex.DecodeString(f[2])
					sd(t, b)
				}
			}
			writeHist(hist)
			return
		}
		r := newRng(*fSeed)
		mk := func(t, declared, actual int) []byte {
			b := []byte{byte(t), byte(declared >> 8), byte(declared)}
			p := r.bytes(actual)
			if r.chance(1, 2) { // non-zero filler so a trailing NUL from the buffer is visible
				for i := range p {
					p[i] = byte(1 + i%250)
				}
			}
			return append(b, p...)
		}
		lens := []int{0, 1, 2, 3, 4, 5, 6, 7, 253, 254, 255, 256, 257, 258, 1000, 4086, 4087, 4088, 4089, 4090, 4091, 4092, 4093, 4094, 4095, 4096, 4097, 4100, 5000}
		decl := append(append([]int{}, lens...), 8192, 65532, 65533, 65534, 65535)
		for _, a := range lens {
			for _, d := range decl {
				rd(mk(1+r.intn(9), d, a))
			}
		}
		// every (declared, actual) pair near each other, small sizes exhaustively
		for a := 0; a <= 12; a++ {
			for d := 0; d <= 14; d++ {
				rd(mk(r.intn(256), d, a))
			}
		}
		// headers shorter than 3 bytes
		rd([]byte{1})
		rd([]byte{1, 0})
		for t := 0; t < 256; t++ {
			rd(mk(t, 2, 2))
		}
		for i := 0; i < *fN; i++ {
			a := r.intn(40)
			if r.chance(1, 5) {
				a = 4080 + r.intn(30)
			}
			d := a + r.intn(5) - 2
			if d < 0 {
				d = 0
			}
			if r.chance(1, 6) {
				d = r.intn(65536)
			}
			rd(mk(r.intn(256), d, a))
		}
		// sendMessage: all types with the standard payload, payload lengths around the limits
		for t := 0; t < 256; t++ {
			sd(t, []byte("{}"))
		}
		for _, l := range []int{0, 1, 2, 255, 256, 257, 4092, 4093, 4094, 4095, 4096, 5000, 65531, 65532, 65533, 65534, 65535, 65536, 65537, 65540, 70000} {
			sd(1+r.intn(9), r.bytes(l))
		}
		writeHist(hist)
	})

	// ---- dispatcher: the public Restarter with a scripted instance and raw children ----
	register("c17disp", func() {
		cases, impl := create("cases.txt"), create("impl.txt")
		hist := map[string]int{}
		emit := func(children [][][]byte) {
			var cs []string
			for _, ch := range children {
				var fs []string
				for _, raw := range ch {
					fs = append(fs, hex.EncodeToString(raw))
				}
				cs = append(cs, strings.Join(fs, ","))
			}
			hist[fmt.Sprintf("children=%d", len(children))]++
			fmt.Fprintln(cases, strings.Join(cs, "|"))
			fmt.Fprintln(impl, dispatchImpl(children))
		}
		if *fIn != "" {
			for _, l := range readLines(*fIn) {
				var children [][][]byte
				for _, c := range strings.Split(l, "|") {
					var ch [][]byte
					if c != "" {
						for _, f := range strings.Split(c, ",") {
							b, _ := hex.DecodeString(f)
							ch = append(ch, b)
						}
					}
					children = append(children, ch)
				}
				emit(children)
			}
			writeHist(hist)
			return
		}
		r := newRng(*fSeed)
		// the documented hand-over, and every single request type 0..12, 255
		emit([][][]byte{{frameBytes(1, []byte("{}")), frameBytes(5, []byte("{}")), frameBytes(7, []byte("{}"))}})
		for t := 0; t <= 12; t++ {
			emit([][][]byte{{frameBytes(t, []byte("{}"))}})
		}
		emit([][][]byte{{frameBytes(255, nil)}})
		// a child that disappears at every point of the hand-over, then a second child completes it
		full := [][]byte{frameBytes(1, []byte("{}")), frameBytes(3, []byte("{}")), frameBytes(5, []byte("{}")), frameBytes(7, []byte("{}"))}
		for k := 0; k <= len(full); k++ {
			emit([][][]byte{full[:k], full})
		}
		for i := 0; i < *fN; i++ {
			var children [][][]byte
			for c, nc := 0, 1+r.intn(3); c < nc; c++ {
				var ch [][]byte
				for a, na := 0, r.intn(5); a < na; a++ {
					switch r.intn(10) {
					case 0: // malformed: declares more than it carries
						ch = append(ch, []byte{byte(1 + r.intn(9)), 0, byte(5 + r.intn(3)), 'x'})
						hist["malformed"]++
					case 1: // short header
						ch = append(ch, []byte{byte(1 + r.intn(9))})
						hist["malformed"]++
					case 2:
						ch = append(ch, frameBytes(r.intn(256), r.bytes(r.intn(6))))
					default:
						ch = append(ch, frameBytes([]int{1, 3, 5, 7}[r.intn(4)], []byte("{}")))
					}
				}
				children = append(children, ch)
			}
			emit(children)
		}
		writeHist(hist)
	})
}
