package main

// C16: the discovery subscription client driven through a verif-tagged handle with a scripted stream factory.
//   case line: ops  s<n> subscribe | u<n> unsubscribe | up (stream creation succeeds from now on) |
//                   down (the current stream fails; creation fails until the next up) | f (let the sender loop run) |
//                   U<n> (a stream comes up and n is subscribed while its first request is still being sent) |
//                   B<k> (the same with a burst of k subscriptions, names 100..100+k-1)
//   output: for every f: the server's view of the current stream (names it has been told to watch, from the requests
//           it received, in order) or "nostream"; BLOCKED if a call did not return within a second

import (
	"context"
	"errors"
	"fmt"
	"sort"
	"strconv"
	"strings"
	"sync"
	"time"

	"github.com/samaritan-proxy/samaritan/config"
	"google.golang.org/grpc/codes"
	"google.golang.org/grpc/status"
)

type c16Stream struct {
	mu     sync.Mutex
	view   map[string]bool
	nreq   int
	dead   chan struct{}
	once   sync.Once
	twice  int           // requests naming one service in both lists
	gate   chan struct{} // when set, the first Send waits for it (a slow resubscription)
	gated  chan struct{} // closed when that Send has begun to wait
	cancel bool          // the stream ends with a CANCELLED status instead of a plain error
	gateCh chan struct{}
}

func (s *c16Stream) downErr() error {
	if s.cancel {
		return status.Error(codes.Canceled, "stream cancelled by the server")
	}
	return errors.New("stream is down")
}

func (s *c16Stream) Send(sub, unsub []string) error {
	select {
	case <-s.dead:
		return s.downErr()
	default:
	}
	if s.gate != nil {
		g := s.gate
		s.gate = nil
		close(s.gated)
		<-g
	}
	s.mu.Lock()
	defer s.mu.Unlock()
	s.nreq++
	in := map[string]bool{}
	for _, x := range sub {
		s.view[x] = true
		in[x] = true
	}
	for _, x := range unsub {
		delete(s.view, x)
		if in[x] {
			s.twice++
		}
	}
	return nil
}

func (s *c16Stream) Recv() error {
	<-s.dead
	return s.downErr()
}

func (s *c16Stream) kill() { s.once.Do(func() { close(s.dead) }) }

func releaseGate(s *c16Stream) {
	if s == nil {
		return
	}
	defer func() { recover() }()
	if s.gateCh != nil {
		close(s.gateCh)
	}
}

func runC16(line string) string {
	var mu sync.Mutex
	allowed := false
	gateNext := false
	useRun := strings.HasPrefix(line, "RUN ")
	line = strings.TrimPrefix(line, "RUN ")
	var cur *c16Stream
	created := 0
	maker := func(ctx context.Context) (config.VerifStream, error) {
		mu.Lock()
		defer mu.Unlock()
		if !allowed {
			return nil, errors.New("discovery server unreachable")
		}
		created++
		cur = &c16Stream{view: map[string]bool{}, dead: make(chan struct{})}
		if gateNext {
			gateNext = false
			cur.gate, cur.gated = make(chan struct{}), make(chan struct{})
			cur.gateCh = cur.gate
		}
		return cur, nil
	}
	c := config.VerifNewSubClient(maker)
	ctx, cancel := context.WithCancel(context.Background())
	var wg sync.WaitGroup
	wg.Add(1)
	go func() {
		defer wg.Done()
		if useRun { // the real retry loop, with its jittered one-second pause
			c.Run(ctx)
			return
		}
		for ctx.Err() == nil { // Run's body without the pause
			c.RunOnce(ctx)
			time.Sleep(2 * time.Millisecond)
		}
	}()
	var outs []string
	want := map[string]bool{} // the dependency set, as the harness has asked for it
	allowedNow := func() bool { mu.Lock(); defer mu.Unlock(); return allowed }
	blocked := false
	call := func(f func()) {
		done := make(chan struct{})
		go func() { f(); close(done) }()
		select {
		case <-done:
		case <-time.After(time.Second):
			blocked = true
		}
	}
	for _, op := range strings.Fields(line) {
		if blocked {
			break
		}
		switch {
		case op[0] == 'U' || op[0] == 'B':
			// a stream comes up and, while its resubscription request is still being sent, the dependency set changes
			mu.Lock()
			allowed = true
			gateNext = true
			mu.Unlock()
			var st *c16Stream
			waitFor(3*time.Second, func() bool { mu.Lock(); defer mu.Unlock(); st = cur; return cur != nil })
			if st != nil && st.gated != nil {
				waitFor(300*time.Millisecond, func() bool {
					select {
					case <-st.gated:
						return true
					default:
						return false
					}
				})
			}
			if op[0] == 'B' {
				// ... a whole burst of changes while the sender is busy with that request
				nb, _ := strconv.Atoi(op[1:])
				for k := 0; k < nb && !blocked; k++ {
					name := strconv.Itoa(100 + k)
					want[name] = true
					call(func() { c.Subscribe(name) })
				}
			} else {
				want[op[1:]] = true
				call(func() { c.Subscribe(op[1:]) })
			}
			mu.Lock()
			gateNext = false
			mu.Unlock()
			releaseGate(st)
		case op == "downc" || op == "down":
			mu.Lock()
			allowed = false
			s := cur
			cur = nil
			mu.Unlock()
			if s != nil {
				s.cancel = op == "downc"
				s.kill()
			}
			settle(8 * time.Millisecond)
		case op == "up":
			mu.Lock()
			allowed = true
			before := created
			had := cur != nil
			mu.Unlock()
			if !had {
				waitFor(4*time.Second, func() bool { mu.Lock(); defer mu.Unlock(); return created > before })
				settle(8 * time.Millisecond)
			}
		case op == "down":
			mu.Lock()
			allowed = false
			s := cur
			cur = nil
			mu.Unlock()
			if s != nil {
				s.kill()
			}
			settle(8 * time.Millisecond)
		case op == "f":
			// give the sender loop (and, after "up", the resubscription) time until the server's view is the dependency set
			waitFor(2*time.Second, func() bool {
				mu.Lock()
				s := cur
				mu.Unlock()
				if s == nil {
					return !allowedNow()
				}
				s.mu.Lock()
				defer s.mu.Unlock()
				if len(s.view) != len(want) {
					return false
				}
				for k := range want {
					if !s.view[k] {
						return false
					}
				}
				return true
			})
			mu.Lock()
			s := cur
			mu.Unlock()
			if s == nil {
				outs = append(outs, "nostream")
			} else {
				s.mu.Lock()
				var ns []int
				for k := range s.view {
					x, _ := strconv.Atoi(k)
					ns = append(ns, x)
				}
				tw := s.twice
				s.mu.Unlock()
				sort.Ints(ns)
				o := strings.Trim(strings.Join(strings.Fields(fmt.Sprint(ns)), ","), "[]")
				if tw > 0 {
					o += "!in-both-lists"
				}
				outs = append(outs, "view="+o)
			}
		case op[0] == 's':
			want[op[1:]] = true
			call(func() { c.Subscribe(op[1:]) })
		case op[0] == 'u':
			delete(want, op[1:])
			call(func() { c.Unsubscribe(op[1:]) })
		}
	}
	mu.Lock()
	if cur != nil {
		cur.kill()
	}
	mu.Unlock()
	cancel()
	if blocked {
		outs = append(outs, "BLOCKED")
	} else {
		wg.Wait()
	}
	return strings.Join(outs, " ")
}

func init() {
	register("c16", func() {
		cases, impl := create("cases.txt"), create("impl.txt")
		hist := map[string]int{}
		var lines []string
		if *fIn != "" {
			lines = readLines(*fIn)
		} else {
			// the historical witnesses
			var w []string
			for i := 0; i < 17; i++ {
				w = append(w, "s"+strconv.Itoa(i))
			}
			lines = append(lines, strings.Join(w, " ")+" up f", "s1 up f u1 s1 f", "up s1 f s1 u1 s2 u2 s2 f down s3 u1 up f",
				"s1 s2 U3 f u1 f down s4 U5 f", "s1 B40 f u1 f", "s1 up f down B70 f u100 u101 f", "RUN s1 up f downc s2 up f", "RUN up s1 f down u1 s3 up f")
			r := newRng(*fSeed)
			for i := 0; i < *fN; i++ {
				var ops []string
				up := false
				for j, nj := 0, 3+r.intn(40); j < nj; j++ {
					switch r.intn(12) {
					case 0:
						ops = append(ops, "up")
						up = true
					case 1:
						ops = append(ops, "down")
						up = false
					case 2, 3:
						ops = append(ops, "f")
					case 4: // a burst, larger than the old 16-entry queue
						for k, nk := 0, 10+r.intn(25); k < nk; k++ {
							ops = append(ops, "s"+strconv.Itoa(r.intn(40)))
						}
					case 5:
						if r.chance(1, 3) {
							ops = append(ops, "down", "B"+strconv.Itoa(20+r.intn(60)), "f")
							continue
						}
						ops = append(ops, "u"+strconv.Itoa(r.intn(12)))
					case 6, 7:
						ops = append(ops, "u"+strconv.Itoa(r.intn(12)))
					default:
						ops = append(ops, "s"+strconv.Itoa(r.intn(12)))
					}
				}
				_ = up
				ops = append(ops, "up", "f")
				lines = append(lines, strings.Join(ops, " "))
			}
		}
		// the cases are independent: run them eight at a time
		outs := make([]string, len(lines))
		sem := make(chan struct{}, 8)
		var wg sync.WaitGroup
		for i, l := range lines {
			wg.Add(1)
			sem <- struct{}{}
			go func(i int, l string) {
				defer wg.Done()
				outs[i] = runC16(l)
				<-sem
			}(i, l)
		}
		wg.Wait()
		for i, l := range lines {
			fmt.Fprintln(cases, l)
			fmt.Fprintln(impl, outs[i])
			hist[fmt.Sprintf("ops<=%d", bucket(len(strings.Fields(l))))]++
		}
		writeHist(hist)
	})
}
