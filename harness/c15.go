package main

import (
	"fmt"
	"sort"
	"strconv"
	"strings"
	"sync"

	"github.com/samaritan-proxy/samaritan/host"
	"github.com/samaritan-proxy/samaritan/pb/config/service"
	"github.com/samaritan-proxy/samaritan/proc/verifx"
)

// object i has address a<i%4> and type Main for i%8 < 4, Backup otherwise: 16 objects, 4 addresses
const c15Objs = 16

func c15Addr(i int) string { return fmt.Sprintf("10.5.0.%d:80", 1+i%4) }
func c15Type(i int) host.Type {
	if i%8 < 4 {
		return host.TypeMain
	}
	return host.TypeBackup
}

func init() {
	register("c15", func() {
		cases, impl := create("cases.txt"), create("impl.txt")
		hist := map[string]int{}
		runCase := func(ops []string) {
			objs := make([]*host.Host, c15Objs)
			idOf := map[*host.Host]int{}
			for i := range objs {
				objs[i] = host.NewWithType(c15Addr(i), c15Type(i))
				idOf[objs[i]] = i
			}
			set := host.NewSet()
			var outs []string
			snapshot := func() string {
				var hs []string
				for _, h := range set.Healthy() {
					hs = append(hs, strconv.Itoa(idOf[h]))
				}
				var as []string
				for _, h := range set.All() {
					as = append(as, strconv.Itoa(idOf[h]))
				}
				sort.Strings(as)
				var rm []string
				for i, h := range objs {
					select {
					case <-h.WaitRemoved():
						rm = append(rm, strconv.Itoa(i))
					default:
					}
				}
				var hl []string
				for i, h := range objs {
					if !h.IsHealthy() {
						hl = append(hl, strconv.Itoa(i))
					}
				}
				return "H" + strings.Join(hs, ",") + "/A" + strings.Join(as, ",") + "/R" + strings.Join(rm, ",") + "/U" + strings.Join(hl, ",")
			}
			for _, op := range ops {
				var hs []*host.Host
				for _, x := range strings.Split(op[1:], ",") {
					if x == "" {
						continue
					}
					i, _ := strconv.Atoi(x)
					hs = append(hs, objs[i])
				}
				switch op[0] {
				case 'a':
					set.Add(hs...)
				case 'r':
					set.Remove(hs...)
				case 'p':
					set.ReplaceAll(hs)
				case 'h':
					set.MarkHostHealthy(hs[0])
				case 'u':
					set.MarkHostUnhealthy(hs[0])
				}
				outs = append(outs, snapshot())
			}
			fmt.Fprintln(cases, strings.Join(ops, " "))
			fmt.Fprintln(impl, strings.Join(outs, " "))
		}
		if *fIn != "" {
			for _, l := range readLines(*fIn) {
				runCase(strings.Split(l, " "))
			}
			writeHist(hist)
			return
		}
		// the three historical witnesses
		runCase([]string{"a0", "a8", "r8"})       // a:Main then a:Backup (another object), remove
		runCase([]string{"a0", "r0", "a4", "u0"}) // stale object marked unhealthy
		runCase([]string{"a0", "u0", "p0"})       // unhealthy object re-added by ReplaceAll
		runCase([]string{"a0", "r4"})             // removal through a fresh object with the same address
		r := newRng(*fSeed)
		ids := func(max int) string {
			var xs []string
			for k, nk := 0, 1+r.intn(max); k < nk; k++ {
				xs = append(xs, strconv.Itoa(r.intn(c15Objs)))
			}
			return strings.Join(xs, ",")
		}
		for i := 0; i < *fN; i++ {
			var ops []string
			for j, nj := 0, 1+r.intn(14); j < nj; j++ {
				switch r.intn(10) {
				case 0, 1, 2:
					ops = append(ops, "a"+ids(3))
				case 3, 4:
					ops = append(ops, "r"+ids(2))
				case 5:
					if r.chance(1, 6) {
						ops = append(ops, "p")
					} else {
						ops = append(ops, "p"+ids(4))
					}
				case 6, 7:
					ops = append(ops, "u"+strconv.Itoa(r.intn(c15Objs)))
				default:
					ops = append(ops, "h"+strconv.Itoa(r.intn(c15Objs)))
				}
			}
			hist[fmt.Sprintf("ops<=%d", bucket(len(ops)))]++
			runCase(ops)
		}
		writeHist(hist)
	})

	// ---- health check hysteresis through the real monitor with a scripted checker ----
	register("c15hc", func() {
		cases, impl := create("cases.txt"), create("impl.txt")
		hist := map[string]int{}
		runCase := func(rise, fall int, results string) {
			h := host.New("10.5.1.1:80")
			set := host.NewSet(h)
			pos := 0
			m, err := verifx.NewMonitor(uint32(fall), uint32(rise), set, func(addr string) bool {
				ok := results[pos] == '1'
				pos++
				return ok
			})
			if err != nil || m == nil {
				die("monitor: %v", err)
			}
			var out []byte
			// results: '0'/'1' = outcome of one check; "R<d>" / "F<d>" = the service's health check is reconfigured with
			// another rise / fall threshold (ResetHealthCheck) before the next check
			stream, rise0, fall0 := results, rise, fall
			results = strings.Map(func(c rune) rune {
				if c == '0' || c == '1' {
					return c
				}
				return -1
			}, strings.NewReplacer("R1", "", "R2", "", "R3", "", "R4", "", "R5", "", "F1", "", "F2", "", "F3", "", "F4", "", "F5", "").Replace(stream))
			for i := 0; i < len(stream); i++ {
				if stream[i] == 'R' || stream[i] == 'F' {
					if stream[i] == 'R' {
						rise = int(stream[i+1] - '0')
					} else {
						fall = int(stream[i+1] - '0')
					}
					if err := m.VerifReset(uint32(fall), uint32(rise)); err != nil {
						die("reset: %v", err)
					}
					i++
					continue
				}
				m.VerifCheck(h)
				if h.IsHealthy() {
					out = append(out, 'H')
				} else {
					out = append(out, 'u')
				}
			}
			results, rise, fall = stream, rise0, fall0
			usable := len(set.Healthy())
			fmt.Fprintf(cases, "%d %d %s\n", rise, fall, results)
			fmt.Fprintf(impl, "%s usable=%d\n", out, usable)
		}
		if *fIn != "" {
			for _, l := range readLines(*fIn) {
				f := strings.Split(l, " ")
				a, _ := strconv.Atoi(f[0])
				b, _ := strconv.Atoi(f[1])
				runCase(a, b, f[2])
			}
			writeHist(hist)
			return
		}
		r := newRng(*fSeed)
		// every result sequence of length <= 10 for rise = fall = 2
		for n := 1; n <= 10; n++ {
			for x := 0; x < 1<<uint(n); x++ {
				s := make([]byte, n)
				for i := range s {
					s[i] = byte('0' + (x>>uint(i))&1)
				}
				runCase(2, 2, string(s))
			}
		}
		for i := 0; i < *fN; i++ {
			n := 1 + r.intn(40)
			s := make([]byte, n)
			p := r.intn(100)
			for j := range s {
				s[j] = '0'
				if r.intn(100) < p {
					s[j] = '1'
				}
			}
			runCase(1+r.intn(5), 1+r.intn(5), string(s))
		}
		// thresholds reconfigured while the monitor runs
		for i := 0; i < *fN; i++ {
			var s []byte
			p := []int{10, 50, 90}[r.intn(3)]
			for j, n := 0, 2+r.intn(5); j < n; j++ {
				for k, nk := 0, 1+r.intn(8); k < nk; k++ {
					if r.intn(100) < p {
						s = append(s, '1')
					} else {
						s = append(s, '0')
					}
				}
				if r.chance(1, 4) {
					p = 100 - p
				}
				s = append(s, "RF"[r.intn(2)], byte('1'+r.intn(5)))
			}
			runCase(1+r.intn(5), 1+r.intn(5), string(s)+"0101")
			hist["reconfigured"]++
		}
		writeHist(hist)
	})

	// ---- balancing policies with scripted random draws ----
	register("c06lb", func() {
		cases, impl := create("cases.txt"), create("impl.txt")
		hist := map[string]int{}
		r := newRng(*fSeed)
		mk := func(conns []int) []*host.Host {
			hs := make([]*host.Host, len(conns))
			for i, c := range conns {
				hs[i] = host.New(fmt.Sprintf("10.5.2.%d:80", i+1))
				for k := 0; k < c; k++ {
					hs[i].IncConnCount()
				}
			}
			return hs
		}
		idx := func(hs []*host.Host, h *host.Host) string {
			if h == nil {
				return "nil"
			}
			for i, x := range hs {
				if x == h {
					return strconv.Itoa(i)
				}
			}
			return "foreign"
		}
		for i := 0; i < *fN; i++ {
			n := r.intn(7)
			conns := make([]int, n)
			for j := range conns {
				conns[j] = r.intn(4)
			}
			hs := mk(conns)
			draws := make([]int, 2*(1+r.intn(6)))
			for j := range draws {
				draws[j] = int(r.u64() >> 1)
				if r.chance(1, 3) {
					draws[j] = r.intn(10)
				}
			}
			var cs []string
			for _, c := range conns {
				cs = append(cs, strconv.Itoa(c))
			}
			var ds []string
			for _, d := range draws {
				ds = append(ds, strconv.Itoa(d))
			}
			for _, pol := range []service.LoadBalancePolicy{service.LoadBalancePolicy_ROUND_ROBIN, service.LoadBalancePolicy_RANDOM, service.LoadBalancePolicy_LEAST_CONNECTION} {
				b := verifx.NewBalancer(pol)
				p := 0
				restore := verifx.SetRandInt(func() int { d := draws[p%len(draws)]; p++; return d })
				var picks []string
				for k := 0; k < len(draws)/2; k++ {
					picks = append(picks, idx(hs, b.PickHost(hs)))
				}
				restore()
				fmt.Fprintf(cases, "%s %s %s\n", b.Name(), strings.Join(cs, ","), strings.Join(ds, ","))
				fmt.Fprintln(impl, strings.Join(picks, ","))
				hist[b.Name()]++
			}
		}
		// round robin under concurrent callers: n hosts, n*k picks from 64 goroutines
		for _, n := range []int{1, 2, 3, 5, 7, 16} {
			hs := mk(make([]int, n))
			b := verifx.NewBalancer(service.LoadBalancePolicy_ROUND_ROBIN)
			k := 64 * 30
			counts := make([]int, n)
			var mu sync.Mutex
			var wg sync.WaitGroup
			for g := 0; g < 64; g++ {
				wg.Add(1)
				go func() {
					defer wg.Done()
					local := make([]int, n)
					for t := 0; t < n*k/64; t++ {
						h := b.PickHost(hs)
						for i, x := range hs {
							if x == h {
								local[i]++
							}
						}
					}
					mu.Lock()
					for i := range counts {
						counts[i] += local[i]
					}
					mu.Unlock()
				}()
			}
			wg.Wait()
			ok := "fair"
			for _, c := range counts {
				if c != k {
					ok = fmt.Sprintf("unfair %v", counts)
				}
			}
			fmt.Fprintf(cases, "RoundRobinConcurrent %d %d\n", n, k)
			fmt.Fprintln(impl, ok)
		}
		writeHist(hist)
	})
}
