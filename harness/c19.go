package main

import (
	"fmt"
	"sort"
	"strconv"
	"strings"

	"github.com/samaritan-proxy/samaritan/proc/redis/hotkey"
)

type heldList struct {
	list  []hotkey.HotKey
	names []string
}

func init() {
	// ---- the per-backend counter: structure after every operation ----
	register("c19", func() {
		cases, impl := create("cases.txt"), create("impl.txt")
		hist := map[string]int{}
		runCase := func(cap int, ops []string) {
			c := hotkey.NewCounter(uint8(cap), nil)
			var outs []string
			func() {
				defer func() {
					if r := recover(); r != nil {
						outs = append(outs, "PANIC")
					}
				}()
				for _, op := range ops {
					switch op[0] {
					case 'i':
						c.Incr(op[1:])
					case 'L':
						m := c.Latch()
						var kv []string
						for k, v := range m {
							kv = append(kv, k+"="+strconv.FormatUint(v, 10))
						}
						sort.Strings(kv)
						outs = append(outs, "latch{"+strings.Join(kv, ",")+"}")
						continue
					case 'F':
						c.Free()
					}
					fw, bw, ok := c.VerifDump()
					// the backward walk must be the mirror image of the forward walk
					f := strings.Fields(fw)
					var mir []string
					for i := len(f) - 1; i >= 0; i-- {
						p := strings.SplitN(f[i], ":", 2)
						ks := strings.Split(p[1], ",")
						for a, b := 0, len(ks)-1; a < b; a, b = a+1, b-1 {
							ks[a], ks[b] = ks[b], ks[a]
						}
						mir = append(mir, p[0]+":"+strings.Join(ks, ","))
					}
					st := "ok"
					if !ok || strings.Join(mir, " ") != bw {
						st = "BADLINKS"
					}
					outs = append(outs, st+"["+strings.ReplaceAll(fw, " ", "|")+"]")
				}
			}()
			fmt.Fprintf(cases, "%d %s\n", cap, strings.Join(ops, " "))
			fmt.Fprintln(impl, strings.Join(outs, " "))
		}
		if *fIn != "" {
			for _, l := range readLines(*fIn) {
				f := strings.Split(l, " ")
				cap, _ := strconv.Atoi(f[0])
				runCase(cap, f[1:])
			}
			writeHist(hist)
			return
		}
		r := newRng(*fSeed)
		runCase(0, []string{"i1"})
		runCase(2, []string{"i1", "i2", "i2", "i1", "i1", "i3", "L"}) // a b b a a c
		for i := 0; i < *fN; i++ {
			cap := []int{1, 2, 2, 3, 3, 4, 5, 8, 255, 0}[r.intn(10)]
			nk := 2 + r.intn(10)
			var ops []string
			for j, nj := 0, 1+r.intn(40); j < nj; j++ {
				switch {
				case r.chance(1, 25):
					ops = append(ops, "L")
				case r.chance(1, 60):
					ops = append(ops, "F")
				default:
					k := r.intn(nk)
					if r.chance(1, 3) {
						k = r.intn(1 + nk/3) // a few hot keys
					}
					ops = append(ops, "i"+strconv.Itoa(k))
				}
			}
			hist[fmt.Sprintf("cap=%d", cap)]++
			runCase(cap, ops)
		}
		writeHist(hist)
	})

	// ---- the collector: reports after collect / evict rounds with a scripted clock ----
	register("c19col", func() {
		cases, impl := create("cases.txt"), create("impl.txt")
		hist := map[string]int{}
		r := newRng(*fSeed)
		for i := 0; i < *fN; i++ {
			cap := 1 + r.intn(6)
			now := int64(1000)
			tick, calls := 0, 0 // tick > 0: the minute changes after every tick-th reading of the clock (in the middle of a round)
			restore := hotkey.VerifSetNow(func() int64 {
				if tick > 0 {
					calls++
					if calls%tick == 0 {
						now++
					}
				}
				return now
			})
			col := hotkey.NewCollector(uint8(cap))
			nb := 1 + r.intn(3)
			var ctrs []*hotkey.Counter
			for b := 0; b < nb; b++ {
				ctrs = append(ctrs, col.AllocCounter(fmt.Sprintf("b%d", b)))
			}
			var steps, outs []string
			var heldLists []heldList
			accessed := map[string]bool{}
			for s, ns := 0, 1+r.intn(8); s < ns; s++ {
				switch r.intn(5) {
				case 0:
					now += int64(r.intn(3))
					col.VerifEvictStale()
					steps = append(steps, fmt.Sprintf("evict@%d", now))
				default:
					var acc []string
					for a, na := 0, r.intn(12); a < na; a++ {
						k := "k" + strconv.Itoa(r.intn(9))
						n := 1 + r.intn(30)
						c := ctrs[r.intn(nb)]
						for t := 0; t < n; t++ {
							c.Incr(k)
						}
						accessed[k] = true
						acc = append(acc, fmt.Sprintf("%s*%d", k, n))
					}
					if r.chance(1, 6) {
						now++
					}
					if r.chance(1, 3) {
						tick, calls = 1+r.intn(4), 0
					}
					col.VerifCollect()
					steps = append(steps, "collect@"+strconv.FormatInt(now, 10)+"~"+strconv.Itoa(tick)+":"+strings.Join(acc, ","))
					tick = 0
				}
				rep := col.VerifReport()
				// the property's oracle on the report itself
				verdict := "ok"
				// a list handed out earlier belongs to its reader: later rounds must not rewrite it
				for _, h := range heldLists {
					for i := range h.list {
						if h.list[i].Name != h.names[i] {
							verdict = "EARLIER-REPORT-REWRITTEN"
						}
					}
				}
				cur := col.HotKeys()
				var names []string
				for _, k := range cur {
					names = append(names, k.Name)
				}
				heldLists = append(heldLists, heldList{cur, names})
				if len(heldLists) > 4 {
					heldLists = heldLists[1:]
				}
				seen := map[string]bool{}
				prev := 256
				if len(rep) > cap {
					verdict = "TOO-MANY"
				}
				for _, e := range rep {
					name := e[:strings.Index(e, "=")]
					v, _ := strconv.Atoi(e[strings.Index(e, "=")+1 : strings.Index(e, "@")])
					if seen[name] {
						verdict = "DUPLICATE"
					}
					seen[name] = true
					if !accessed[name] {
						verdict = "NEVER-ACCESSED"
					}
					if v > prev {
						verdict = "NOT-DESCENDING"
					}
					prev = v
				}
				outs = append(outs, verdict)
			}
			restore()
			fmt.Fprintf(cases, "%d %s\n", cap, strings.Join(steps, " "))
			fmt.Fprintln(impl, strings.Join(outs, " "))
			hist[fmt.Sprintf("cap=%d", cap)]++
		}
		writeHist(hist)
	})
}
