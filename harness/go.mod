module verifharness

go 1.13

require (
	github.com/samaritan-proxy/samaritan v0.0.0
	google.golang.org/grpc v1.23.1
)

replace github.com/samaritan-proxy/samaritan => /repo
