// harness: runs the implementation (the repository under test, built with -tags verif
// from /repo's working tree) on generated inputs and prints canonical results, one
// line per case, for comparison with the extracted Coq model.
//
// usage: harness <mode> [-seed N] [-n N] [-out DIR] ...
package main

import (
	"bufio"
	"flag"
	"fmt"
	"os"
	"path/filepath"
	"time"

	"github.com/samaritan-proxy/samaritan/logger"
)

type mode struct {
	name string
	run  func(args []string)
}

var modes = map[string]func(){}

var (
	fSeed     = flag.Int64("seed", 1, "PRNG seed")
	fN        = flag.Int("n", 1000, "number of random cases")
	fOut      = flag.String("out", ".", "output directory")
	fTier     = flag.String("tier", "quick", "quick|thorough")
	fIn       = flag.String("in", "", "input file (replay)")
	fDeadline = flag.Int("deadline", 0, "stop generating new cases after this many seconds (0: never)")
)

func register(name string, f func()) { modes[name] = f }

var startedAt = time.Now()

// expired: the time budget for generating cases is used up (a broken tree can make every case slow)
func expired() bool {
	return *fDeadline > 0 && time.Since(startedAt) > time.Duration(*fDeadline)*time.Second
}

func die(format string, a ...interface{}) {
	fmt.Fprintf(os.Stderr, "harness: "+format+"\n", a...)
	os.Exit(2)
}

func create(name string) *bufio.Writer {
	f, err := os.Create(filepath.Join(*fOut, name))
	if err != nil {
		die("%v", err)
	}
	w := bufio.NewWriterSize(f, 1<<20)
	closers = append(closers, func() { w.Flush(); f.Close() })
	return w
}

var closers []func()

func main() {
	if len(os.Args) < 2 {
		die("usage: harness <mode> [flags]")
	}
	m, ok := modes[os.Args[1]]
	if !ok {
		die("unknown mode %s", os.Args[1])
	}
	flag.CommandLine.Parse(os.Args[2:])
	logger.SetLevel("fatal") // the repository logs to stdout
	os.MkdirAll(*fOut, 0755)
	m()
	for _, c := range closers {
		c()
	}
}
