package main

// C16 end to end: dependency updates travel the real way - the dependency stream's responses, the wrapped hook of
// discoveryClient.StreamDependencies, the two subscription clients, their streams - over a scripted gRPC stub.
//   case line: updates separated by " ; ", each  +a,+b,-c  (services added / removed by one dependency response),
//              or  !cfg / !ep / !dep  (the config / endpoint / dependency stream fails and is re-created by the client)
//   output:    cfg=<names the config server has been told to watch> ep=<the same for the endpoint server>
//              after the last update has been processed and the streams have settled (sorted, comma separated)

import (
	"context"
	"errors"
	"fmt"
	"sort"
	"strings"
	"sync"
	"time"

	"github.com/samaritan-proxy/samaritan/config"
	"github.com/samaritan-proxy/samaritan/pb/api"
	"github.com/samaritan-proxy/samaritan/pb/config/service"
	"google.golang.org/grpc"
	"google.golang.org/grpc/metadata"
)

type c16Base struct {
	ctx  context.Context
	dead chan struct{}
	once sync.Once
}

func (b *c16Base) Header() (metadata.MD, error) { return nil, nil }
func (b *c16Base) Trailer() metadata.MD         { return nil }
func (b *c16Base) CloseSend() error             { return nil }
func (b *c16Base) Context() context.Context     { return b.ctx }
func (b *c16Base) SendMsg(m interface{}) error  { return nil }
func (b *c16Base) RecvMsg(m interface{}) error  { return nil }
func (b *c16Base) kill()                        { b.once.Do(func() { close(b.dead) }) }
func (b *c16Base) wait() error {
	select {
	case <-b.dead:
		return errors.New("stream failed")
	case <-b.ctx.Done():
		return b.ctx.Err()
	}
}

// the server side of one subscription stream: the set of names it has been asked to watch on THIS stream
type c16Server struct {
	mu   sync.Mutex
	view map[string]bool
	cur  *c16Base
	made int
}

func (s *c16Server) apply(sub, unsub []string, of *c16Base) error {
	select {
	case <-of.dead:
		return errors.New("stream failed")
	default:
	}
	s.mu.Lock()
	defer s.mu.Unlock()
	if s.cur != of {
		return errors.New("stale stream")
	}
	for _, x := range unsub {
		delete(s.view, x)
	}
	for _, x := range sub {
		s.view[x] = true
	}
	return nil
}

func (s *c16Server) open(ctx context.Context) *c16Base {
	s.mu.Lock()
	defer s.mu.Unlock()
	b := &c16Base{ctx: ctx, dead: make(chan struct{})}
	s.cur = b
	s.view = map[string]bool{} // a new stream starts with no subscriptions
	s.made++
	return b
}

func (s *c16Server) names() string {
	s.mu.Lock()
	defer s.mu.Unlock()
	var xs []string
	for k := range s.view {
		xs = append(xs, k)
	}
	sort.Strings(xs)
	return strings.Join(xs, ",")
}

type c16CfgStream struct {
	*c16Base
	s *c16Server
}

func (st *c16CfgStream) Send(r *api.SvcConfigDiscoveryRequest) error {
	return st.s.apply(r.SvcNamesSubscribe, r.SvcNamesUnsubscribe, st.c16Base)
}
func (st *c16CfgStream) Recv() (*api.SvcConfigDiscoveryResponse, error) { return nil, st.wait() }

type c16EpStream struct {
	*c16Base
	s *c16Server
}

func (st *c16EpStream) Send(r *api.SvcEndpointDiscoveryRequest) error {
	return st.s.apply(r.SvcNamesSubscribe, r.SvcNamesUnsubscribe, st.c16Base)
}
func (st *c16EpStream) Recv() (*api.SvcEndpointDiscoveryResponse, error) { return nil, st.wait() }

type c16DepStream struct {
	*c16Base
	ch chan *api.DependencyDiscoveryResponse
}

func (st *c16DepStream) Recv() (*api.DependencyDiscoveryResponse, error) {
	select {
	case <-st.dead:
		return nil, errors.New("stream failed")
	default:
	}
	select {
	case r := <-st.ch:
		return r, nil
	case <-st.dead:
		return nil, errors.New("stream failed")
	case <-st.ctx.Done():
		return nil, st.ctx.Err()
	}
}

type c16Stub struct {
	cfg, ep *c16Server
	deps    chan *api.DependencyDiscoveryResponse
	mu      sync.Mutex
	dep     *c16DepStream
	depMade int
}

func (s *c16Stub) StreamDependencies(ctx context.Context, in *api.DependencyDiscoveryRequest, opts ...grpc.CallOption) (api.DiscoveryService_StreamDependenciesClient, error) {
	st := &c16DepStream{c16Base: &c16Base{ctx: ctx, dead: make(chan struct{})}, ch: s.deps}
	s.mu.Lock()
	s.dep = st
	s.depMade++
	s.mu.Unlock()
	return st, nil
}
func (s *c16Stub) StreamSvcConfigs(ctx context.Context, opts ...grpc.CallOption) (api.DiscoveryService_StreamSvcConfigsClient, error) {
	return &c16CfgStream{c16Base: s.cfg.open(ctx), s: s.cfg}, nil
}
func (s *c16Stub) StreamSvcEndpoints(ctx context.Context, opts ...grpc.CallOption) (api.DiscoveryService_StreamSvcEndpointsClient, error) {
	return &c16EpStream{c16Base: s.ep.open(ctx), s: s.ep}, nil
}

func runC16e2e(line string) string {
	stub := &c16Stub{cfg: &c16Server{view: map[string]bool{}}, ep: &c16Server{view: map[string]bool{}}, deps: make(chan *api.DependencyDiscoveryResponse)}
	d := config.VerifNewDiscovery(stub)
	ctx, cancel := context.WithCancel(context.Background())
	done := make(chan struct{})
	go func() { d.Run(ctx); close(done) }()
	want := map[string]bool{}
	wantNames := func() string {
		var xs []string
		for k := range want {
			xs = append(xs, k)
		}
		sort.Strings(xs)
		return strings.Join(xs, ",")
	}
	// all three streams exist before the first update
	waitFor(3*time.Second, func() bool { stub.mu.Lock(); defer stub.mu.Unlock(); return stub.depMade > 0 })
	waitFor(3*time.Second, func() bool {
		stub.cfg.mu.Lock()
		a := stub.cfg.made
		stub.cfg.mu.Unlock()
		stub.ep.mu.Lock()
		b := stub.ep.made
		stub.ep.mu.Unlock()
		return a > 0 && b > 0
	})
	for _, up := range strings.Split(line, " ; ") {
		up = strings.TrimSpace(up)
		switch up {
		case "":
		case "!dep":
			// the dependency stream fails right after the responses sent so far have been received: what was received is
			// applied all the same; the client re-creates the stream after about a second
			stub.mu.Lock()
			cur, made := stub.dep, stub.depMade
			stub.mu.Unlock()
			if cur != nil {
				cur.kill()
			}
			waitFor(4*time.Second, func() bool { stub.mu.Lock(); defer stub.mu.Unlock(); return stub.depMade > made })
		case "!cfg", "!ep":
			s := stub.cfg
			if up == "!ep" {
				s = stub.ep
			}
			s.mu.Lock()
			cur, made := s.cur, s.made
			s.mu.Unlock()
			if cur != nil {
				cur.kill()
			}
			// the client re-creates the stream after about a second
			waitFor(4*time.Second, func() bool { s.mu.Lock(); defer s.mu.Unlock(); return s.made > made })
		default:
			resp := &api.DependencyDiscoveryResponse{}
			for _, x := range strings.Split(up, ",") {
				if len(x) < 2 {
					continue
				}
				if x[0] == '+' {
					resp.Added = append(resp.Added, &service.Service{Name: x[1:]})
					want[x[1:]] = true
				} else {
					resp.Removed = append(resp.Removed, &service.Service{Name: x[1:]})
				}
			}
			// within one response the hook subscribes the added services first, then unsubscribes the removed ones
			for _, x := range strings.Split(up, ",") {
				if len(x) >= 2 && x[0] == '-' {
					delete(want, x[1:])
				}
			}
			select {
			case stub.deps <- resp:
			case <-time.After(3 * time.Second):
				cancel()
				return "DEPENDENCY-STREAM-NOT-READ"
			}
		}
	}
	waitFor(2*time.Second, func() bool { return stub.cfg.names() == wantNames() && stub.ep.names() == wantNames() })
	out := fmt.Sprintf("cfg=%s ep=%s", stub.cfg.names(), stub.ep.names())
	cancel()
	select {
	case <-done:
	case <-time.After(3 * time.Second):
		out += " RUN-DID-NOT-END"
	}
	return out
}

func init() {
	register("c16e2e", func() {
		cases, impl := create("cases.txt"), create("impl.txt")
		hist := map[string]int{}
		var lines []string
		if *fIn != "" {
			lines = readLines(*fIn)
		} else {
			lines = append(lines, "+a,+b,+c", "+a,+b,+c ; +d,-a,-b", "+a ; -a ; +a ; -a ; +a", "+a,+b ; !cfg ; +c,-a ; !ep ; +d", "+a ; +b ; +c ; +d ; +e ; !dep ; +f", "+a,+b ; -a ; +c ; !dep ; -b ; +d ; +e ; !dep")
			r := newRng(*fSeed)
			for i := 0; i < *fN; i++ {
				var ups []string
				have := map[string]bool{}
				for j, nj := 0, 1+r.intn(8); j < nj; j++ {
					if r.chance(1, 10) {
						ups = append(ups, []string{"!cfg", "!ep", "!dep", "!dep"}[r.intn(4)])
						hist["stream failures"]++
						continue
					}
					var xs []string
					used := map[string]bool{}
					for k, nk := 0, 1+r.intn(5); k < nk; k++ {
						name := fmt.Sprintf("s%d", r.intn(10))
						if used[name] {
							continue
						}
						used[name] = true
						if have[name] && r.chance(2, 3) {
							xs = append(xs, "-"+name)
							delete(have, name)
						} else {
							xs = append(xs, "+"+name)
							have[name] = true
						}
					}
					ups = append(ups, strings.Join(xs, ","))
				}
				lines = append(lines, strings.Join(ups, " ; "))
			}
		}
		outs := make([]string, len(lines))
		sem := make(chan struct{}, 8)
		var wg sync.WaitGroup
		for i, l := range lines {
			wg.Add(1)
			sem <- struct{}{}
			go func(i int, l string) {
				defer wg.Done()
				outs[i] = runC16e2e(l)
				<-sem
			}(i, l)
		}
		wg.Wait()
		for i, l := range lines {
			fmt.Fprintln(cases, l)
			fmt.Fprintln(impl, outs[i])
			hist[fmt.Sprintf("updates<=%d", bucket(len(strings.Split(l, " ; "))))]++
		}
		writeHist(hist)
	})
}
