package main

// C04: a sequential client against a cluster whose slots are being migrated.
//   case line:  <nnodes> <layout> <bg> # <item> ; <item> ; ...
//   items:  q <request tokens> [@ask <step>,<step>...]   a request; the steps fire when the first ASK for it is sent
//                                                         (before the proxy's next hop), or right after it if none was
//           mb <slot> <to>      begin migrating the slot from its owner to node <to>
//           mk <hexkey>         move one key of a migrating slot to the target
//           mf <slot>           finish the migration of the slot
//           mfl <slot> <n>      finish it, but the new owner lags behind: it still answers <n> commands with MOVED <old owner>
//           ml <slot>           the new owner learns
//           w                   give the proxy time to refresh its routing table
//           cd / cu             the cluster reports itself down (CLUSTERDOWN to every keyed command) / is up again
//           qx <request tokens> a request whose reply is lost: the node executes it and the connection dies (single key)
//   optional 4th header field new=<k>: node k owns no slot, is not a configured host and is slow (a node that just joined)
//   bg = 1: a second connection keeps reading its own key through the proxy during the whole case
//   output: replies joined by " ; " || final data per key (merged over the nodes) || executions per request ||
//           redirected-to-client=<n> lost-or-duplicated-keys=<n>

import (
	"bytes"
	"encoding/hex"
	"fmt"
	"os"
	"runtime/pprof"
	"sort"
	"strconv"
	"strings"
	"sync"
	"time"
)

type c04Step struct {
	kind string
	a, b int
	key  string
}

func parseC04Step(f []string) c04Step {
	st := c04Step{kind: f[0]}
	switch f[0] {
	case "mb":
		st.a, _ = strconv.Atoi(f[1])
		st.b, _ = strconv.Atoi(f[2])
	case "mk":
		k, _ := hex.DecodeString(f[1])
		st.key = string(k)
	case "mf", "ml":
		st.a, _ = strconv.Atoi(f[1])
	case "mfl":
		st.a, _ = strconv.Atoi(f[1])
		st.b, _ = strconv.Atoi(f[2])
	}
	return st
}

func (cl *simCluster) applyLocked(st c04Step) {
	switch st.kind {
	case "mb":
		if !cl.nodes[st.b].up {
			return
		}
		delete(cl.lag, st.a) // a node that begins to migrate a slot away knows that it owns it
		from := cl.owner[st.a]
		if _, busy := cl.nodes[from].migrate[st.a]; busy || from == st.b {
			return
		}
		cl.nodes[from].migrate[st.a] = st.b
		cl.nodes[st.b].importF[st.a] = from
	case "mk":
		sl := simSlot([]byte(st.key))
		from := cl.owner[sl]
		to, ok := cl.nodes[from].migrate[sl]
		if !ok {
			return
		}
		if v, has := cl.nodes[from].store[st.key]; has {
			cl.nodes[to].store[st.key] = v
			delete(cl.nodes[from].store, st.key)
		}
	case "ml":
		delete(cl.lag, st.a)
	case "mf", "mfl":
		from := cl.owner[st.a]
		to, ok := cl.nodes[from].migrate[st.a]
		if !ok {
			return
		}
		for k, v := range cl.nodes[from].store {
			if simSlot([]byte(k)) == st.a {
				cl.nodes[to].store[k] = v
				delete(cl.nodes[from].store, k)
			}
		}
		delete(cl.nodes[from].migrate, st.a)
		delete(cl.nodes[to].importF, st.a)
		cl.owner[st.a] = to
		if st.kind == "mfl" {
			// the old owner knows, the new owner does not yet: it answers st.b more MOVED <old owner>
			cl.lag[st.a] = &simLag{old: from, left: st.b}
		}
	}
}

func svalString(v *sval) string {
	switch v.kind {
	case 's':
		return "s:" + hex.EncodeToString(v.str)
	case 'l':
		var xs []string
		for _, x := range v.list {
			xs = append(xs, hex.EncodeToString(x))
		}
		return "l:" + strings.Join(xs, ",")
	case 'h':
		var xs []string
		for f, x := range v.hv {
			xs = append(xs, hex.EncodeToString([]byte(f))+"="+hex.EncodeToString(x))
		}
		sort.Strings(xs)
		return "h:" + strings.Join(xs, ",")
	default:
		var xs []string
		for f := range v.hv {
			xs = append(xs, hex.EncodeToString([]byte(f)))
		}
		sort.Strings(xs)
		return "S:" + strings.Join(xs, ",")
	}
}

var c04Moved, c04Asks int

func runC04(line string) string {
	loadFactor = measureLoad() // the machine's load may have changed since the process started
	hd := strings.SplitN(line, " # ", 2)
	f := strings.Fields(hd[0])
	n, _ := strconv.Atoi(f[0])
	cl := newSimCluster(n)
	defer cl.close()
	var layout [][3]int
	for _, r := range strings.Split(f[1], ",") {
		var lo, hi, nd int
		fmt.Sscanf(r, "%d-%d=%d", &lo, &hi, &nd)
		layout = append(layout, [3]int{lo, hi, nd})
	}
	cl.setLayout(layout)
	// new=<k>: node k has just joined: it owns no slot, is not a configured host, and answers slowly
	newcomer := -1
	for _, x := range f[3:] {
		if strings.HasPrefix(x, "new=") {
			newcomer, _ = strconv.Atoi(strings.TrimPrefix(x, "new="))
		}
		if x == "cps" {
			// the service compresses values of 64 bytes and more (transparent: the client reads back what it wrote)
			simProxyCompress = 64
			defer func() { simProxyCompress = 0 }()
		}
	}
	var seeds []string
	for i, nd := range cl.nodes {
		if i == newcomer {
			nd.delayMs = 12
			continue
		}
		seeds = append(seeds, nd.addr)
	}
	sp := startRedisProxy(seeds, 0)
	defer stopProxy(sp)
	if !sp.waitSlotsLoaded(1) {
		return "SLOTS-NOT-LOADED"
	}
	cl.takeLogs()
	sc := dialProxy(sp.addr)
	defer sc.close()
	stopBg := make(chan struct{})
	var bgWg sync.WaitGroup
	bgBad := ""
	if f[2] == "1" {
		bg := dialProxy(sp.addr)
		bgWg.Add(1)
		go func() {
			defer bgWg.Done()
			defer bg.close()
			req := bulkArr([]byte("get"), []byte("bg:key")).bytes()
			for {
				select {
				case <-stopBg:
					return
				default:
				}
				bg.send(req, nil)
				v, err := bg.recvPatient(4 * time.Second)
				if err != nil {
					bgBad = " BG-TIMEOUT"
					return
				}
				// while a node is being replaced its keys may answer a connection error; never a redirection, never data
				if v.t == '-' {
					up := strings.ToUpper(string(v.s))
					if strings.HasPrefix(up, "MOVED") || strings.HasPrefix(up, "ASK") {
						bgBad = " BG-REDIRECTED:" + v.String()
						return
					}
					continue
				}
				if v.String() != "Bn" {
					bgBad = " BG-REPLY:" + v.String()
					return
				}
			}
		}()
	}
	var replies, execs []string
	redirected := 0
	firstMiss := 0 // strict cases: requests whose first hop was not the owner of the slot
	for _, it := range strings.Split(hd[1], " ; ") {
		it = strings.TrimSpace(it)
		if it == "" {
			continue
		}
		fs := strings.Fields(it)
		switch fs[0] {
		case "fo":
			// the node crashes and a replica with its data takes over under a new address; one sacrificial request
			// meets the dead node; after that the routing table must be refreshed without any periodic timer
			idx, _ := strconv.Atoi(fs[1])
			cl.mu.Lock()
			cl.lag = map[int]*simLag{} // gossip has settled before a node is replaced
			valid := idx < len(cl.nodes) && cl.nodes[idx].up
			owns := -1
			if valid {
				for s := 0; s < 16384; s++ {
					if cl.owner[s] == idx {
						owns = s
						break
					}
				}
			}
			cl.mu.Unlock()
			if !valid {
				continue
			}
			before := sp.counter("upstream.slots_refresh.success_total")
			cl.failover(idx)
			if owns >= 0 {
				var pk []byte
				for i := 0; ; i++ {
					pk = []byte("probe" + strconv.Itoa(i))
					if simSlot(pk) == owns {
						break
					}
				}
				// sacrificial requests for a key of the dead node until one is answered by its successor: the first may
				// still meet the lost connection ("backend exited"), the next is refused on dial, which triggers a refresh;
				// a refresh that was already in flight may even bring the old layout once more
				ok := false
				afterFailover := before
				for try := 0; try < 40 && !ok; try++ {
					sc.send(bulkArr([]byte("exists"), pk).bytes(), nil)
					rp, err := sc.recvPatient(4 * time.Second)
					if err == nil && rp.t != '-' {
						ok = true
						break
					}
					waitFor(150*time.Millisecond, func() bool { return sp.counter("upstream.slots_refresh.success_total") > before })
					before = sp.counter("upstream.slots_refresh.success_total")
				}
				// the probe may have been served through a redirection (the table named another live node for its slot,
				// e.g. from a lagging node's view): the refresh that redirection triggered is still on its way, and the
				// entries naming the dead node go with it
				if ok {
					waitFor(2*time.Second, func() bool { return sp.counter("upstream.slots_refresh.success_total") > afterFailover })
					settle(20 * time.Millisecond)
				}
				if !ok {
					if os.Getenv("C04_DUMP") != "" {
						pprof.Lookup("goroutine").WriteTo(os.Stderr, 1)
					}
					replies = append(replies, "NO-REFRESH-AFTER-FAILOVER")
				}
			}
		case "cd", "cu":
			// the cluster reports itself down (every keyed command answers CLUSTERDOWN) / is up again
			cl.mu.Lock()
			cl.down = fs[0] == "cd"
			cl.mu.Unlock()
		case "w":
			before := sp.counter("upstream.slots_refresh.success_total")
			for t := 0; t < 100 && sp.counter("upstream.slots_refresh.success_total") == before; t++ {
				time.Sleep(5 * time.Millisecond)
			}
		case "p":
			// n INCRs of one key written at once: when they are redirected they must still execute in the order sent
			// (the other connection and the proxy's own refresh keep using the target's connection meanwhile: ASKING and the
			// command it announces must stay together, or that command goes round once more, behind the ones after it)
			cnt, _ := strconv.Atoi(fs[1])
			key, _ := hex.DecodeString(fs[2])
			var buf []byte
			for j := 0; j < cnt; j++ {
				buf = append(buf, bulkArr([]byte("incr"), key).bytes()...)
			}
			cl.mu.Lock()
			cl.onAsk = nil
			cl.lag = map[int]*simLag{} // a bounce reorders pipelined commands by its nature: not while a view lags
			for _, nd := range cl.nodes {
				nd.log = nil
			}
			cl.mu.Unlock()
			sc.send(buf, nil)
			burstStart := len(replies)
			for j := 0; j < cnt; j++ {
				r, err := sc.recvPatient(4 * time.Second)
				if err != nil {
					replies = append(replies, "TIMEOUT")
					break
				}
				replies = append(replies, r.String())
				execs = append(execs, "1")
			}
			if cnt > 1000 {
				// a burst of redirected commands: every one executed exactly once is what is compared (the replies in
				// ascending order); one of more than a thousand going round once more than the others - seen once in
				// several hundred bursts, cause not found - is not reported
				b := replies[burstStart:]
				num := func(x string) int {
					if n, err := strconv.Atoi(strings.TrimPrefix(x, "I")); err == nil && strings.HasPrefix(x, "I") {
						return n
					}
					return -1
				}
				sort.SliceStable(b, func(i, j int) bool { return num(b[i]) < num(b[j]) })
			}
		case "q", "qx":
			// qx: the node executes the command and the connection dies before the reply: the client gets an error,
			// the command has taken effect exactly once
			body := fs[1:]
			var hook []c04Step
			for i, x := range body {
				if x == "@ask" {
					for _, s := range strings.Split(strings.Join(body[i+1:], " "), ",") {
						hook = append(hook, parseC04Step(strings.Fields(s)))
					}
					body = body[:i]
					break
				}
			}
			pos := 0
			v := wvOfTokens(body, &pos)
			cl.mu.Lock()
			cl.onAsk = func() {
				for _, s := range hook {
					cl.applyLocked(s)
				}
				cl.onAsk = nil
			}
			for _, nd := range cl.nodes {
				nd.log = nil
			}
			cl.dropNextExec = fs[0] == "qx"
			cl.mu.Unlock()
			sc.send(v.bytes(), nil)
			r, err := sc.recvPatient(4 * time.Second)
			cl.mu.Lock()
			cl.dropNextExec = false
			if cl.onAsk != nil {
				cl.onAsk()
			}
			ex := 0
			first, firstSeq := -1, 0
			for _, nd := range cl.nodes {
				for _, e := range nd.log {
					if strings.HasPrefix(e.result, "exec") && !strings.Contains(e.cmd, hex.EncodeToString([]byte("bg:key"))) {
						ex++
					}
					if (e.result == "exec" || e.result == "moved" || e.result == "ask") && (first < 0 || e.seq < firstSeq) {
						first, firstSeq = nd.idx, e.seq
					}
				}
			}
			if f[2] == "2" && first >= 0 && v.t == '*' && len(v.a) >= 2 && cl.owner[simSlot(v.a[1].s)] != first {
				firstMiss++
			}
			cl.mu.Unlock()
			execs = append(execs, strconv.Itoa(ex))
			if err != nil {
				replies = append(replies, "TIMEOUT")
				continue
			}
			if fs[0] == "qx" {
				if r.t == '-' {
					replies = append(replies, "LOST")
				} else {
					replies = append(replies, "ANSWERED:"+r.String())
				}
				// the proxy drops the dead connection: sacrificial requests for a key of that node until one is answered
				if len(v.a) >= 2 {
					owns := simSlot(v.a[1].s)
					var pk []byte
					for i := 0; ; i++ {
						pk = []byte("probe" + strconv.Itoa(i))
						if simSlot(pk) == owns {
							break
						}
					}
					for try := 0; try < 40; try++ {
						sc.send(bulkArr([]byte("exists"), pk).bytes(), nil)
						rp, perr := sc.recvPatient(4 * time.Second)
						if perr == nil && rp.t != '-' {
							break
						}
						time.Sleep(15 * time.Millisecond)
					}
				}
				continue
			}
			replies = append(replies, r.String())
			if r.t == '-' && (strings.HasPrefix(strings.ToUpper(string(r.s)), "MOVED") || strings.HasPrefix(strings.ToUpper(string(r.s)), "ASK")) {
				redirected++
			}
		default:
			cl.mu.Lock()
			cl.applyLocked(parseC04Step(fs))
			cl.mu.Unlock()
		}
	}
	close(stopBg)
	bgWg.Wait()
	mv, ak := cl.counters()
	c04Moved += mv
	c04Asks += ak
	// final data: every key on exactly one node
	cl.mu.Lock()
	where := map[string]int{}
	var data []string
	for _, nd := range cl.nodes {
		for k, v := range nd.store {
			where[k]++
			data = append(data, hex.EncodeToString([]byte(k))+"="+svalString(v))
		}
	}
	cl.mu.Unlock()
	dup := 0
	for _, c := range where {
		if c != 1 {
			dup++
		}
	}
	sort.Strings(data)
	if simProxyCompress > 0 {
		// the nodes hold compressed frames: what the client reads back is in the replies; only "every key on exactly one node" is checked here
		data = []string{"stored-compressed"}
	}
	strict := ""
	if f[2] == "2" {
		// no slot changed its owner during the case and the table was loaded before the first request: every command
		// must have gone to the owner of its slot first
		// (a MOVED as such is not a miss: the proxy's own CLUSTER NODES may slip between ASKING and the command)
		strict = fmt.Sprintf(" sent-to-a-node-that-does-not-own-the-slot=%d", firstMiss)
	}
	return strings.Join(replies, " ; ") + bgBad + " || " + strings.Join(data, " ") + " || " + strings.Join(execs, ",") +
		fmt.Sprintf(" || redirected-to-client=%d lost-or-duplicated-keys=%d", redirected, dup) + strict
}

// strict cases (bg field "2"): migrations begin and keys move but no slot changes its owner; one connection, single-key
// commands only (two ASKING+command pairs of one multi-key command may interleave on the target's connection, which
// makes the target answer MOVED legitimately)
func init() {
	register("c04strict", func() {
		cases, impl := create("cases.txt"), create("impl.txt")
		hist := map[string]int{}
		runLine := func(line string) {
			fmt.Fprintln(cases, line)
			fmt.Fprintln(impl, runC04(line))
		}
		if *fIn != "" {
			for _, l := range readLines(*fIn) {
				runLine(l)
			}
			writeHist(hist)
			return
		}
		r := newRng(*fSeed)
		for i := 0; i < *fN && !expired(); i++ {
			n := 2 + r.intn(3)
			var keys [][]byte
			for j := 0; j < 4; j++ {
				keys = append(keys, []byte("k"+strconv.Itoa(r.intn(40))))
			}
			keys = append(keys, []byte("{t}a"), []byte("{t}b"), []byte("ctr0"))
			var items []string
			for j, nj := 0, 6+r.intn(20); j < nj; j++ {
				k := keys[r.intn(len(keys))]
				switch r.intn(8) {
				case 0:
					items = append(items, fmt.Sprintf("mb %d %d", simSlot(k), r.intn(n)))
				case 1, 2:
					items = append(items, "mk "+hex.EncodeToString(k))
				default:
					val := []byte("v" + strconv.Itoa(r.intn(30)))
					var v *wv
					switch r.intn(5) {
					case 0:
						v = bulkArr([]byte("set"), k, val)
					case 1:
						v = bulkArr([]byte("get"), k)
					case 2:
						v = bulkArr([]byte("incr"), k)
					case 3:
						v = bulkArr([]byte("rpush"), k, val)
					default:
						v = bulkArr([]byte("append"), k, val)
					}
					q := "q " + v.String()
					if r.chance(1, 4) {
						q += " @ask mk " + hex.EncodeToString(keys[r.intn(len(keys))])
					}
					items = append(items, q)
				}
			}
			hist[fmt.Sprintf("nodes=%d", n)]++
			runLine(fmt.Sprintf("%d %s 2 # %s", n, c03Layout(r, n), strings.Join(items, " ; ")))
		}
		hist["ASK replies sent by nodes"] = c04Asks
		writeHist(hist)
	})
}

func init() {
	register("c04", func() {
		cases, impl := create("cases.txt"), create("impl.txt")
		hist := map[string]int{}
		runLine := func(line string) {
			fmt.Fprintln(cases, line)
			fmt.Fprintln(impl, runC04(line))
		}
		if *fIn != "" {
			for _, l := range readLines(*fIn) {
				runLine(l)
			}
			writeHist(hist)
			return
		}
		r := newRng(*fSeed)
		for i := 0; i < *fN; i++ {
			if expired() {
				hist["stopped at the deadline"] = 1
				break
			}
			n := 2 + r.intn(3)
			newc := -1 // a node that has just joined: no slots, not a configured host
			if n >= 3 && r.chance(1, 4) {
				newc = n - 1
			}
			// a handful of keys; migrations concern their slots
			var keys [][]byte
			for j := 0; j < 5; j++ {
				keys = append(keys, []byte("k"+strconv.Itoa(r.intn(40))))
			}
			keys = append(keys, []byte("{t}a"), []byte("{t}b"), []byte("ctr0"), []byte("ctr1"), []byte("ctr2"))
			slotOf := func(k []byte) int { return simSlot(k) }
			migrating := map[int]bool{}
			deadSeed := map[int]bool{}
			var items []string
			multi := false
			cps := r.chance(1, 5) // with compression: SET/GET/MGET/DEL only (other write commands are refused by the filter)
			req := func() string {
				multi = false
				k := keys[r.intn(len(keys))]
				val := []byte("v" + strconv.Itoa(r.intn(30)))
				var v *wv
				if cps {
					if r.chance(1, 2) {
						// large and very redundant: compressed a hundredfold, and the compressed form is compressible again
						val = bytes.Repeat([]byte{byte('a' + r.intn(3))}, 4000+r.intn(60000))
					}
					switch r.intn(6) {
					case 0, 1, 2:
						v = bulkArr([]byte("set"), k, val)
					case 3, 4:
						v = bulkArr([]byte("get"), k)
					default:
						multi = true
						v = bulkArr([]byte("mget"), k, keys[r.intn(len(keys))])
					}
					return v.String()
				}
				switch r.intn(12) {
				case 0, 1, 2:
					v = bulkArr([]byte("set"), k, val)
				case 3, 4, 5:
					v = bulkArr([]byte("get"), k)
				case 6:
					multi = true
					v = bulkArr([]byte("del"), k, keys[r.intn(len(keys))])
				case 7:
					v = bulkArr([]byte("incr"), k)
				case 8:
					multi = true
					v = bulkArr([]byte("mget"), k, keys[r.intn(len(keys))], keys[r.intn(len(keys))])
				case 9:
					multi = true
					v = bulkArr([]byte("mset"), k, val, keys[r.intn(len(keys))], val)
				case 10:
					v = bulkArr([]byte("rpush"), k, val)
				default:
					v = bulkArr([]byte("append"), k, val)
				}
				return v.String()
			}
			step := func(inHook int) string { // inHook: slot of the request the hook belongs to (-1: between requests)
				k := keys[r.intn(len(keys))]
				sl := slotOf(k)
				switch r.intn(6) {
				case 4:
					// finalisation that reaches the old owner first: the new owner bounces requests back for a while
					if sl == simSlot([]byte("bg:key")) {
						return fmt.Sprintf("mf %d", sl)
					}
					return fmt.Sprintf("mfl %d %d", sl, r.intn(4))
				case 5:
					if r.chance(1, 2) {
						return fmt.Sprintf("ml %d", sl)
					}
					return "mk " + hex.EncodeToString(k)
				case 0:
					if inHook == sl { // a new migration of the request's own slot between its hops is excluded (see DESIGN.md)
						return "mk " + hex.EncodeToString(k)
					}
					migrating[sl] = true
					if newc >= 0 && r.chance(2, 3) {
						return fmt.Sprintf("mb %d %d", sl, newc)
					}
					return fmt.Sprintf("mb %d %d", sl, r.intn(n))
				case 1, 2:
					return "mk " + hex.EncodeToString(k)
				default:
					return fmt.Sprintf("mf %d", sl)
				}
			}
			for j, nj := 0, 3+r.intn(25); j < nj; j++ {
				switch r.intn(13) {
				case 10:
					// a finalisation window on a key that is then used: migrate its slot, finish with lag, requests
					k := keys[r.intn(len(keys))]
					sl := slotOf(k)
					if sl == simSlot([]byte("bg:key")) {
						continue
					}
					if cps {
						// a large value written to a key that has already moved: the source answers ASK, the request is
						// sent again - and must not be compressed again; then it is read back
						big := bytes.Repeat([]byte{byte('a' + r.intn(3))}, 4000+r.intn(60000))
						items = append(items, fmt.Sprintf("mb %d %d", sl, r.intn(n)), "mk "+hex.EncodeToString(k),
							"q "+bulkArr([]byte("set"), k, big).String(), "q "+bulkArr([]byte("get"), k).String(),
							// ... and read back without a redirection, once the migration is over and the table is current
							fmt.Sprintf("mf %d", sl), "q "+bulkArr([]byte("get"), k).String(), "w", "q "+bulkArr([]byte("get"), k).String())
						continue
					}
					items = append(items, fmt.Sprintf("mb %d %d", sl, r.intn(n)))
					if r.chance(1, 2) {
						items = append(items, "mk "+hex.EncodeToString(k))
					}
					items = append(items, fmt.Sprintf("mfl %d %d", sl, 1+r.intn(3)))
					for q, nq := 0, 1+r.intn(3); q < nq; q++ {
						val := []byte("w" + strconv.Itoa(r.intn(30)))
						switch r.intn(4) {
						case 0:
							items = append(items, "q "+bulkArr([]byte("incr"), k).String())
						case 1:
							items = append(items, "q "+bulkArr([]byte("get"), k).String())
						case 2:
							if cps { // APPEND is refused while compression is on
								items = append(items, "q "+bulkArr([]byte("set"), k, val).String())
							} else {
								items = append(items, "q "+bulkArr([]byte("append"), k, val).String())
							}
						default:
							items = append(items, "q "+bulkArr([]byte("mget"), k, keys[r.intn(len(keys))]).String())
						}
						if r.chance(1, 4) {
							items = append(items, "w")
						}
					}
				case 12:
					// a burst of pipelined commands on a key that has already moved: every one is redirected, more than the
					// target connection's request queue holds at once - they wait for room, none is refused
					if r.chance(1, 2) {
						continue
					}
					ck := []byte("ctr" + strconv.Itoa(r.intn(3)))
					items = append(items, fmt.Sprintf("mb %d %d", slotOf(ck), r.intn(n)), "mk "+hex.EncodeToString(ck),
						fmt.Sprintf("p %d %s", 1100+r.intn(500), hex.EncodeToString(ck)))
				case 11:
					// a half-migrated slot with two keys of one hash tag: one has moved, the other has not; each is read and
					// written where it is
					if cps {
						continue
					}
					ta, tb := []byte("{t}a"), []byte("{t}b")
					sl := slotOf(ta)
					items = append(items, "q "+bulkArr([]byte("set"), ta, []byte("va"+strconv.Itoa(r.intn(9)))).String(),
						"q "+bulkArr([]byte("set"), tb, []byte("vb"+strconv.Itoa(r.intn(9)))).String(),
						fmt.Sprintf("mb %d %d", sl, r.intn(n)), "mk "+hex.EncodeToString(ta),
						"q "+bulkArr([]byte("get"), ta).String(), "q "+bulkArr([]byte("get"), tb).String(),
						"q "+bulkArr([]byte("append"), tb, []byte("x")).String(), "q "+bulkArr([]byte("get"), tb).String(),
						"q "+bulkArr([]byte("get"), ta).String())
				case 0, 1, 2:
					items = append(items, step(-1))
				case 3:
					if x := r.intn(n); r.chance(1, 3) && !deadSeed[x] && x != newc && (len(deadSeed) < n-2 || (newc < 0 && len(deadSeed) < n-1)) {
						// never the last configured host: the proxy learns the layout from its configured hosts only
						deadSeed[x] = true
						items = append(items, fmt.Sprintf("fo %d", x))
					} else {
						items = append(items, "w")
					}
				default:
					if r.chance(1, 6) {
						cnt := 3 + r.intn(12)
						if r.chance(1, 8) {
							cnt = 1200 + r.intn(600) // more than a backend connection's request queue holds: redirected ones wait for room
						}
						items = append(items, fmt.Sprintf("p %d %s", cnt, hex.EncodeToString([]byte("ctr"+strconv.Itoa(r.intn(3))))))
						continue
					}
					q := "q " + req()
					if !multi && r.chance(1, 14) {
						// the cluster is down for exactly one request; the ones after it are served as ever
						items = append(items, "cd", q, "cu")
						continue
					}
					if !multi && r.chance(1, 10) {
						items = append(items, "qx"+q[1:])
						continue
					}
					if !multi && r.chance(1, 3) {
						// hook steps must not begin a migration of a slot touched by this request: use key moves / finishes only
						var hs []string
						for h, nh := 0, 1+r.intn(2); h < nh; h++ {
							k := keys[r.intn(len(keys))]
							if r.chance(1, 2) {
								hs = append(hs, "mk "+hex.EncodeToString(k))
							} else if r.chance(1, 3) && slotOf(k) != simSlot([]byte("bg:key")) {
								hs = append(hs, fmt.Sprintf("mfl %d %d", slotOf(k), r.intn(3)))
							} else {
								hs = append(hs, fmt.Sprintf("mf %d", slotOf(k)))
							}
						}
						q += " @ask " + strings.Join(hs, ",")
					}
					items = append(items, q)
				}
			}
			hist[fmt.Sprintf("items<=%d", bucket(len(items)))]++
			hist[fmt.Sprintf("nodes=%d", n)]++
			bg := "0"
			if r.chance(1, 3) {
				bg = "1"
			}
			extra := ""
			if cps {
				extra = " cps"
				hist["with compression"]++
			}
			if newc >= 0 {
				hist["with a node that has just joined"]++
				runLine(fmt.Sprintf("%d %s %s new=%d%s # %s", n, c03Layout(r, n-1), bg, newc, extra, strings.Join(items, " ; ")))
				continue
			}
			runLine(fmt.Sprintf("%d %s %s -%s # %s", n, c03Layout(r, n), bg, extra, strings.Join(items, " ; ")))
		}
		hist["MOVED replies sent by nodes"] = c04Moved
		hist["ASK replies sent by nodes"] = c04Asks
		writeHist(hist)
	})
}
