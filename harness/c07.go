package main

// C07: a sequential client while connections are lost, backends stop and come back, and the layout changes.
//   case line:  <nnodes> <layout> # <op> ; ...
//   case line:  <nnodes> <layout> [rep=<m>,<m>..] # ...   (a replica of each master named; configured hosts too)
//   ops:  cdown / cup (every keyed command answers CLUSTERDOWN / the cluster is up again)
//         q <request tokens>    qx <request tokens> (the node executes it and drops the connection: lost:<executions>)    kill <n>    down <n>    up <n>    lay <lo> <hi> <n>    w    promote <m> (the master
//         goes down for good, its replica takes over its slots)
//   output per request:  ok:<reply>:<node>:<first|same|new>:<r|->   or   err
//     (node that executed; whether the connection it arrived on is the one the previous request to that node used;
//      r = it was redirected first), then " || refresh-after-redirect=<ok|missing>"

import (
	"fmt"
	"strconv"
	"strings"
	"time"
)

// c07GapSlots: the highest three consecutive slots none of the keys k0..k29 hashes to
func c07GapSlots() []int {
	used := map[int]bool{}
	for i := 0; i < 30; i++ {
		used[simSlot([]byte("k"+strconv.Itoa(i)))] = true
	}
	for s := 16381; s >= 0; s-- {
		if !used[s] && !used[s+1] && !used[s+2] {
			return []int{s, s + 1, s + 2}
		}
	}
	return nil
}

func runC07(line string) string {
	loadFactor = measureLoad() // the machine's load may have changed since the process started
	hd := strings.SplitN(line, " # ", 2)
	f := strings.Fields(hd[0])
	n, _ := strconv.Atoi(f[0])
	cl := newSimCluster(n)
	defer cl.close()
	var layout [][3]int
	for _, r := range strings.Split(f[1], ",") {
		var lo, hi, nd int
		fmt.Sscanf(r, "%d-%d=%d", &lo, &hi, &nd)
		layout = append(layout, [3]int{lo, hi, nd})
	}
	cl.setLayout(layout)
	if f[len(f)-1] == "gap" {
		// three slots no key of these histories hashes to are served by nobody (a slot dropped during a reshard, a
		// cluster that does not require full coverage): the layout the nodes report is valid all the same
		cl.mu.Lock()
		for _, s := range c07GapSlots() {
			cl.owner[s] = 1 << 20
		}
		cl.mu.Unlock()
	}
	// rep=<m>,<m>..: a replica of each master named, in that order (node indices n, n+1, ..); configured hosts as well
	if len(f) > 2 && strings.HasPrefix(f[2], "rep=") {
		for _, x := range strings.Split(strings.TrimPrefix(f[2], "rep="), ",") {
			if m, err := strconv.Atoi(x); err == nil && m < n {
				cl.mu.Lock()
				cl.addNode(m)
				cl.mu.Unlock()
			}
		}
	}
	var seeds []string
	for _, nd := range cl.nodes {
		seeds = append(seeds, nd.addr)
	}
	sp := startRedisProxy(seeds, 0)
	defer stopProxy(sp)
	if !sp.waitSlotsLoaded(1) {
		return "SLOTS-NOT-LOADED"
	}
	cl.takeLogs()
	sc := dialProxy(sp.addr)
	defer sc.close()
	servedNodes := func() int {
		cl.mu.Lock()
		defer cl.mu.Unlock()
		t := 0
		for _, nd := range cl.nodes {
			t += nd.nodesServed
		}
		return t
	}
	lastConn := map[int]int{}
	var outs []string
	missing := false
	// wait until a refresh has succeeded since `before` and the refresh loop is idle (nothing in flight, nothing queued
	// that would start within the minimum interval)
	waitRefresh := func(before uint64) {
		cl.mu.Lock()
		any := false
		for _, nd := range cl.nodes {
			any = any || nd.up
		}
		cl.mu.Unlock()
		if !any || missing { // one missing refresh is reported; do not wait for the others as well
			return
		}
		idleSince := time.Time{}
		for t := 0; t < 700; t++ {
			ok := sp.counter("upstream.slots_refresh.success_total") > before
			idle := sp.counter("upstream.slots_refresh.total") == sp.counter("upstream.slots_refresh.success_total")+sp.counter("upstream.slots_refresh.failure_total")
			if ok && idle {
				if idleSince.IsZero() {
					idleSince = time.Now()
				} else if time.Since(idleSince) > time.Duration(float64(80*time.Millisecond)*loadFactor) {
					return
				}
			} else {
				idleSince = time.Time{}
			}
			time.Sleep(4 * time.Millisecond)
		}
		missing = true
	}
	for _, it := range strings.Split(hd[1], " ; ") {
		fs := strings.Fields(it)
		if len(fs) == 0 {
			continue
		}
		arg := func(i int) int { x, _ := strconv.Atoi(fs[i]); return x }
		switch fs[0] {
		case "slow":
			cl.mu.Lock()
			cl.nodesDelayMs = arg(1)
			cl.mu.Unlock()
		case "q", "q!":
			pos := 0
			v := wvOfTokens(fs[1:], &pos)
			before := sp.counter("upstream.slots_refresh.success_total")
			nodesBefore := servedNodes()
			cl.mu.Lock()
			for _, nd := range cl.nodes {
				nd.log = nil
			}
			cl.mu.Unlock()
			sc.send(v.bytes(), nil)
			r, err := sc.recvPatient(5 * time.Second)
			if err != nil {
				outs = append(outs, "TIMEOUT")
				continue
			}
			// "backend exited" is the answer while a lost connection has not yet removed itself from the table (a
			// matter of scheduling, C07_error_has_cause's second case): when the key's owner is up, give the connection's
			// goroutine more time and ask again - a proxy that never reconnects keeps answering it
			for try := 0; try < 5 && r.t == '-' && strings.Contains(string(r.s), "backend exited"); try++ {
				cl.mu.Lock()
				ownerUp := false
				if len(v.a) >= 2 {
					ownerUp = cl.nodes[cl.owner[simSlot(v.a[1].s)]].up
				}
				cl.mu.Unlock()
				if !ownerUp {
					break
				}
				settle(60 * time.Millisecond)
				sc.send(v.bytes(), nil)
				if r, err = sc.recvPatient(5 * time.Second); err != nil {
					break
				}
			}
			if err != nil {
				outs = append(outs, "TIMEOUT")
				continue
			}
			cl.mu.Lock()
			node, conn, red := -1, 0, "-"
			for i, nd := range cl.nodes {
				for _, e := range nd.log {
					if e.result == "exec" {
						node, conn = i, e.conn
					}
					if e.result == "moved" {
						red = "r"
					}
				}
			}
			cl.mu.Unlock()
			if node < 0 {
				outs = append(outs, "err")
				if r.t != '-' {
					outs[len(outs)-1] = "reply-without-execution:" + r.String()
				}
				if fs[0] == "q" {
					waitRefresh(before)
				}
				continue
			}
			fresh := "first"
			if c, ok := lastConn[node]; ok {
				fresh = "same"
				if c != conn {
					fresh = "new"
				}
			}
			lastConn[node] = conn
			outs = append(outs, fmt.Sprintf("ok:%s:%d:%s:%s", r.String(), node, fresh, red))
			if red == "r" && fs[0] == "q" {
				waitRefresh(before)
			}
			if red == "r" && fs[0] == "q!" {
				// go on as soon as the refresh this redirection triggered has reached a node (its answer is still to come)
				for t := 0; t < 500 && servedNodes() == nodesBefore; t++ {
					time.Sleep(2 * time.Millisecond)
				}
			}
		case "qx":
			// a request whose reply is lost: the node executes it and drops the connection instead of answering
			pos := 0
			v := wvOfTokens(fs[1:], &pos)
			beforeQx := sp.counter("upstream.slots_refresh.success_total")
			cl.mu.Lock()
			for _, nd := range cl.nodes {
				nd.log = nil
			}
			cl.dropNextExec = true
			cl.mu.Unlock()
			sc.send(v.bytes(), nil)
			r, err := sc.recvPatient(5 * time.Second)
			cl.mu.Lock()
			cl.dropNextExec = false
			ex := 0
			for _, nd := range cl.nodes {
				for _, e := range nd.log {
					if strings.HasPrefix(e.result, "exec") {
						ex++
					}
				}
			}
			cl.mu.Unlock()
			switch {
			case err != nil:
				outs = append(outs, "TIMEOUT")
			case r.t != '-':
				outs = append(outs, fmt.Sprintf("answered:%s:%d", r.String(), ex))
			case ex == 0:
				outs = append(outs, "err")
				waitRefresh(beforeQx) // it did not reach a node (unreachable): the refresh this triggers, as after any failed request
			default:
				outs = append(outs, fmt.Sprintf("lost:%d", ex))
			}
		case "cdown", "cup":
			// the cluster reports itself down (every keyed command answers CLUSTERDOWN) / is up again
			cl.mu.Lock()
			cl.down = fs[0] == "cdown"
			cl.mu.Unlock()
		case "kill":
			cl.nodes[arg(1)].killConns()
		case "down":
			if cl.nodes[arg(1)].up {
				cl.nodes[arg(1)].stop()
			}
		case "mv":
			// the node restarts under a new address, keeping its cluster node id
			if arg(1) < len(cl.nodes) && cl.nodes[arg(1)].up {
				cl.replaceNode(arg(1), true)
			}
		case "promote":
			// the master goes down for good and its replica (same data) takes over its slots under its own address
			m := arg(1)
			cl.mu.Lock()
			rp := -1
			for i, nd := range cl.nodes {
				if nd.master == m && nd.up && rp < 0 {
					rp = i
				}
			}
			ok := m < len(cl.nodes) && cl.nodes[m].up && rp >= 0
			if ok {
				cl.nodes[rp].master = -1
				cl.nodes[m].store = map[string]*sval{} // the data lives on in the promoted node
				for s := 0; s < 16384; s++ {
					if cl.owner[s] == m {
						cl.owner[s] = rp
					}
				}
			}
			cl.mu.Unlock()
			if ok {
				cl.nodes[m].stop()
			}
		case "up":
			if !cl.nodes[arg(1)].up && !cl.nodes[arg(1)].gone {
				cl.nodes[arg(1)].start()
			}
		case "lay":
			cl.mu.Lock()
			lo, hi, to := arg(1), arg(2), arg(3)
			for s := lo; s <= hi; s++ {
				from := cl.owner[s]
				if from != to {
					cl.owner[s] = to
				}
			}
			for i, nd := range cl.nodes {
				if i == to || nd.master >= 0 { // a replica shares its master's store
					continue
				}
				for k, v := range nd.store {
					if sl := simSlot([]byte(k)); sl >= lo && sl <= hi {
						cl.nodes[to].store[k] = v
						delete(nd.store, k)
					}
				}
			}
			cl.mu.Unlock()
		case "w":
			settle(60 * time.Millisecond)
		}
	}
	res := "ok"
	if missing {
		res = "missing"
	}
	return strings.Join(outs, " ; ") + " || refresh-after-redirect=" + res
}

func init() {
	register("c07", func() {
		cases, impl := create("cases.txt"), create("impl.txt")
		hist := map[string]int{}
		runLine := func(line string) {
			fmt.Fprintln(cases, line)
			fmt.Fprintln(impl, runC07(line))
		}
		if *fIn != "" {
			for _, l := range readLines(*fIn) {
				runLine(l)
			}
			writeHist(hist)
			return
		}
		r := newRng(*fSeed)
		// the historical witnesses first
		runLine("2 0-8000=0,8001-16383=1 # q A3 B736574 B6b31 B76 ; kill 0 ; kill 1 ; w ; q A2 B676574 B6b31 ; q A2 B676574 B6b31")
		runLine("3 0-5000=0,5001-11000=1,11001-16383=2 # q A3 B736574 B6b31 B76 ; q A3 B736574 B6b32 B76 ; q A3 B736574 B6b35 B76 ; mv 1 ; w ; q A2 B676574 B6b31 ; q A2 B676574 B6b31 ; q A2 B676574 B6b32 ; q A2 B676574 B6b35 ; q A2 B676574 B6b32 ; q A2 B676574 B6b35")
		runLine("2 0-8000=0,8001-16383=1 # down 1 ; down 0 ; w ; q A2 B676574 B6b31 ; up 0 ; up 1 ; w ; q A2 B676574 B6b31 ; q A3 B736574 B6b32 B76 ; q A2 B676574 B6b32")
		// a single master fails for good and its replica takes over: the configured hosts (not the table's masters) are asked
		runLine("1 0-16383=0 rep=0 # q A3 B736574 B6b31 B76 ; promote 0 ; w ; q A2 B676574 B6b31 ; q A2 B676574 B6b31 ; q A2 B676574 B6b31 ; q A2 B676574 B6b31")
		// a failed master that still has its replica listed, and a layout change elsewhere: the refresh must go through
		runLine("3 0-5000=0,5001-11000=1,11001-16383=2 rep=0 # q A3 B736574 B6b31 B76 ; down 0 ; w ; lay 5001 11000 2 ; q A2 B676574 B6b30 ; q A2 B676574 B6b30 ; q A2 B676574 B6b30")
		// a long outage: several requests fail while the node is down; as soon as it is back the next one is served
		{
			var k1 []byte
			for i := 0; ; i++ {
				k1 = []byte("k" + strconv.Itoa(i))
				if simSlot(k1) > 8000 {
					break
				}
			}
			g := bulkArr([]byte("get"), k1).String()
			runLine("2 0-8000=0,8001-16383=1 # q " + g + " ; down 1 ; w ; q " + g + " ; q " + g + " ; q " + g + " ; q " + g + " ; q " + g + " ; up 1 ; q " + g + " ; q " + g)
			runLine("2 0-8000=0,8001-16383=1 # down 1 ; w ; q " + g + " ; q " + g + " ; q " + g + " ; q " + g + " ; w ; q " + g + " ; q " + g + " ; up 1 ; q " + g)
		}
		// a layout change while a refresh round is in flight: the refresh request queued meanwhile must not be lost
		for i := 0; i < 4; i++ {
			k1, k2 := []byte("k"+strconv.Itoa(i)), []byte("k"+strconv.Itoa(i+7))
			s1, s2 := simSlot(k1), simSlot(k2)
			o := 0
			if s1 > 8000 {
				o = 1
			}
			o2 := 0
			if s2 > 8000 {
				o2 = 1
			}
			runLine(fmt.Sprintf("2 0-8000=0,8001-16383=1 # q %s ; q %s ; slow 90 ; lay %d %d %d ; q! %s ; lay %d %d %d ; q %s ; q %s ; q %s",
				bulkArr([]byte("incr"), k1).String(), bulkArr([]byte("incr"), k2).String(), s1, s1, 1-o, bulkArr([]byte("incr"), k1).String(),
				s2, s2, 1-o2, bulkArr([]byte("incr"), k2).String(), bulkArr([]byte("incr"), k2).String(), bulkArr([]byte("incr"), k1).String()))
		}
		for i := 0; i < *fN; i++ {
			if expired() {
				hist["stopped at the deadline"] = 1
				break
			}
			n := 2 + r.intn(3)
			down := map[int]bool{}
			moved := map[int]bool{}
			hasRep := map[int]bool{}
			rep := ""
			if r.chance(1, 3) {
				if r.chance(1, 4) {
					n = 1 // a single master with its replica
				}
				var ms []string
				for j, nj := 0, 1+r.intn(2); j < nj; j++ {
					if m := r.intn(n); !hasRep[m] {
						hasRep[m] = true
						ms = append(ms, strconv.Itoa(m))
					}
				}
				rep = " rep=" + strings.Join(ms, ",")
				hist["with replicas"]++
			}
			var ops []string
			for j, nj := 0, 4+r.intn(22); j < nj; j++ {
				k := []byte("k" + strconv.Itoa(r.intn(30)))
				switch r.intn(14) {
				case 6:
					if x := r.intn(n); hasRep[x] && !down[x] && !moved[x] {
						moved[x] = true
						hasRep[x] = false
						ops = append(ops, fmt.Sprintf("promote %d", x), "w")
						hist["replica promoted"]++
						continue
					}
					ops = append(ops, "q "+bulkArr([]byte("get"), k).String())
				case 0:
					if x := r.intn(n); !moved[x] {
						ops = append(ops, fmt.Sprintf("kill %d", x), "w")
					}
					hist["kill"]++
				case 1:
					x := r.intn(n)
					if len(down)+len(moved) < n-1 && !down[x] && !moved[x] { // keep one configured host reachable
						down[x] = true
						ops = append(ops, fmt.Sprintf("down %d", x), "w")
						hist["down"]++
					}
				case 2, 3:
					for x := range down {
						delete(down, x)
						ops = append(ops, fmt.Sprintf("up %d", x), "w")
						hist["up"]++
						break
					}
				case 5:
					if x := r.intn(n); !down[x] && !moved[x] && !hasRep[x] && rep == "" && len(down)+len(moved) < n-1 {
						moved[x] = true
						ops = append(ops, fmt.Sprintf("mv %d", x), "w")
						hist["restart under a new address"]++
					}
				case 4:
					lo := r.intn(16384)
					hi := lo + r.intn(16384-lo)
					if r.chance(1, 2) { // around a key in use, so that it matters
						sl := simSlot(k)
						lo, hi = sl-r.intn(sl+1)%50, sl+r.intn(50)
						if hi > 16383 {
							hi = 16383
						}
					}
					if to := r.intn(n); !moved[to] {
						ops = append(ops, fmt.Sprintf("lay %d %d %d", lo, hi, to))
						hist["layout change"]++
					}
				default:
					var v *wv
					switch r.intn(4) {
					case 0:
						v = bulkArr([]byte("set"), k, []byte("v"+strconv.Itoa(r.intn(20))))
					case 1:
						v = bulkArr([]byte("incr"), k)
					default:
						v = bulkArr([]byte("get"), k)
					}
					if r.chance(1, 14) {
						// the cluster is down for one request; afterwards everything is served again at once
						ops = append(ops, "cdown", "q "+v.String(), "cup", "q "+bulkArr([]byte("get"), k).String(), "q "+bulkArr([]byte("get"), []byte("k"+strconv.Itoa(r.intn(30)))).String())
						hist["cluster down for one request"]++
						continue
					}
					if r.chance(1, 12) {
						ops = append(ops, "qx "+bulkArr([]byte("incr"), k).String(), "w", "q "+bulkArr([]byte("get"), k).String())
						hist["reply lost after execution"]++
						continue
					}
					ops = append(ops, "q "+v.String())
				}
			}
			hist[fmt.Sprintf("nodes=%d", n)]++
			gap := ""
			if r.chance(1, 3) {
				gap = " gap"
				hist["three slots served by nobody"]++
			}
			runLine(fmt.Sprintf("%d %s%s%s # %s", n, c03Layout(r, n), rep, gap, strings.Join(ops, " ; ")))
		}
		writeHist(hist)
	})
}
