package main

// C19 end to end: requests go through the real request path (handleRequest, the filter chain of the backend connection)
// and the backend connection's access counter is read the way the collector's next round reads it.
//   case line:  <seed> <nkeys>      (fewer distinct keys than the counter's capacity: nothing is evicted)
//   output:     ok | the first difference between the counter's content and the accesses made
// Keys are 1..400 bytes long; some share a prefix of 100..300 bytes with another key.

import (
	"fmt"
	"sort"
	"strings"
	"time"

	"github.com/samaritan-proxy/samaritan/proc/redis"
)

func runC19e2e(seed int64, nkeys int) string {
	r := newRng(seed)
	addr := "10.5.0.1:7000"
	env := redis.VerifNewEnv([]string{addr}, 0, nil)
	defer env.Close()
	env.SetAnswer(func(addr string, body *redis.RespValue) *redis.RespValue {
		return &redis.RespValue{Type: redis.SimpleString, Text: []byte("OK")}
	})
	var keys []string
	for len(keys) < nkeys {
		var k string
		if len(keys) > 0 && r.chance(1, 3) {
			// shares a long prefix with an earlier key
			base := keys[r.intn(len(keys))]
			pre := strings.Repeat("p", 100+r.intn(200))
			if len(base) > 100 {
				pre = base[:100+r.intn(len(base)-100)]
			}
			k = pre + fmt.Sprintf("#%d", len(keys))
		} else {
			k = fmt.Sprintf("k%d:", len(keys)) + strings.Repeat(string(rune('a'+r.intn(26))), r.intn(400))
		}
		keys = append(keys, k)
	}
	want := map[string]uint64{}
	for i, n := 0, 1+r.intn(60); i < n; i++ {
		k := keys[r.intn(len(keys))]
		cmd := []string{"get", "set", "incr", "append", "strlen"}[r.intn(5)]
		vs := []redis.RespValue{bulk(cmd), bulk(k)}
		if cmd == "set" || cmd == "append" {
			vs = append(vs, bulk("v"))
		}
		if _, timedOut := env.Do(arr(vs...), 2*time.Second); timedOut {
			return "TIMEOUT"
		}
		want[k]++
	}
	if len(env.Panics()) > 0 {
		return "PANIC"
	}
	got := env.HotKeyCounts(addr)
	var names []string
	for k := range got {
		names = append(names, k)
	}
	sort.Strings(names)
	short := func(k string) string {
		if len(k) > 24 {
			return fmt.Sprintf("%s...(%d bytes)", k[:24], len(k))
		}
		return k
	}
	for _, k := range names {
		if want[k] == 0 {
			return "the counter lists " + short(k) + ", a key that was never accessed"
		}
		if got[k] != want[k] {
			return fmt.Sprintf("the counter holds %d for %s, accessed %d times", got[k], short(k), want[k])
		}
	}
	for k := range want {
		if _, ok := got[k]; !ok {
			return "the counter does not list " + short(k) + fmt.Sprintf(", accessed %d times", want[k])
		}
	}
	return "ok"
}

func init() {
	register("c19e2e", func() {
		cases, impl := create("cases.txt"), create("impl.txt")
		hist := map[string]int{}
		run := func(seed int64, nk int) {
			fmt.Fprintf(cases, "%d %d\n", seed, nk)
			fmt.Fprintln(impl, runC19e2e(seed, nk))
			hist[fmt.Sprintf("keys<=%d", bucket(nk))]++
		}
		if *fIn != "" {
			for _, l := range readLines(*fIn) {
				var seed int64
				var nk int
				fmt.Sscanf(l, "%d %d", &seed, &nk)
				run(seed, nk)
			}
			writeHist(hist)
			return
		}
		r := newRng(*fSeed)
		for i := 0; i < *fN && !expired(); i++ {
			run(int64(r.u64()>>1), 1+r.intn(30))
		}
		writeHist(hist)
	})
}
