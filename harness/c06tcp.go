package main

// C06 end to end: the TCP processor in front of scripted backends; which backend each connection reaches, the per-host
// connection count the balancer reads, and what happens to connections when their host is removed.
//   case line:  <policy rr|least|random> <nbackends> # ops
//   ops: o (open a connection and keep it) | H (the same, and the backend then finishes its direction: a half-closed relay still counts) | c<i> (close the i-th kept connection) | d<b> / u<b> (backend b refuses / accepts)
//        h<i> (the i-th kept connection's client finishes sending: a half-closed connection is still established) |
//        r<b> (remove host b from the service) | a<b> (add it again) | U<n> (configuration update: another idle timeout, same policy)
//   output per op:  o -> b<k> (backend reached) or fail;  then after every op the hosts' counts "n0,n1,.."
//                   r<b> -> closed=<number of kept connections to b that saw end-of-stream>

import (
	"fmt"
	"io"
	"net"
	"strconv"
	"strings"
	"sync"
	"sync/atomic"
	"syscall"
	"time"

	"github.com/samaritan-proxy/samaritan/host"
	"github.com/samaritan-proxy/samaritan/pb/config/service"
	"github.com/samaritan-proxy/samaritan/proc"
	"github.com/samaritan-proxy/samaritan/utils"
)

type c06Backend struct {
	release  chan struct{} // closed at the end of a case: connections held open after their client finished may go
	stubborn int32         // while set, a connection whose peer has finished is kept open for a while (a backend that ignores the FIN)
	accepts  int64
	mu       sync.Mutex
	addr     string
	ln       net.Listener
	idx      int
	hello    []byte
}

func (b *c06Backend) serve() {
	ln := b.ln
	go func() {
		for {
			c, err := ln.Accept()
			if err != nil {
				return
			}
			atomic.AddInt64(&b.accepts, 1)
			go func() {
				defer c.Close()
				c.Write(b.hello) // tells the client which backend it reached
				// a client that says 'H' gets this direction finished (half-close); what it sends is still read
				one := make([]byte, 1)
				hold := false
				for {
					n, err := c.Read(one)
					if err != nil {
						if err == io.EOF && atomic.LoadInt32(&b.stubborn) == 1 {
							time.Sleep(2500 * time.Millisecond)
						} else if err == io.EOF && hold && b.release != nil {
							// its client has finished sending ('h'): the backend keeps its side open
							select {
							case <-b.release:
							case <-time.After(6 * time.Second):
							}
						}
						return
					}
					if n == 1 && one[0] == 'H' {
						c.(*net.TCPConn).CloseWrite()
					}
					if n == 1 && one[0] == 'h' {
						hold = true
					}
				}
			}()
		}
	}()
}

func (b *c06Backend) down() {
	b.mu.Lock()
	defer b.mu.Unlock()
	if b.ln != nil {
		b.ln.Close()
		b.ln = nil
	}
}

func (b *c06Backend) up() {
	b.mu.Lock()
	defer b.mu.Unlock()
	if b.ln != nil {
		return
	}
	for t := 0; t < 100; t++ {
		ln, err := net.Listen("tcp", b.addr)
		if err == nil {
			b.ln = ln
			b.serve()
			return
		}
		time.Sleep(10 * time.Millisecond)
	}
}

var c06Annotated string

// a backend whose connects neither succeed nor are refused: a listening socket with a full accept queue
func newBlackhole() (string, func()) {
	fd, err := syscall.Socket(syscall.AF_INET, syscall.SOCK_STREAM, 0)
	if err != nil {
		die("blackhole socket: %v", err)
	}
	syscall.SetsockoptInt(fd, syscall.SOL_SOCKET, syscall.SO_REUSEADDR, 1)
	if err := syscall.Bind(fd, &syscall.SockaddrInet4{Port: 0, Addr: [4]byte{127, 0, 0, 1}}); err != nil {
		die("blackhole bind: %v", err)
	}
	syscall.Listen(fd, 0)
	sa, _ := syscall.Getsockname(fd)
	addr := fmt.Sprintf("127.0.0.1:%d", sa.(*syscall.SockaddrInet4).Port)
	var fill []net.Conn
	for i := 0; i < 4; i++ { // nobody accepts: the queue fills, further SYNs are dropped
		if c, err := net.DialTimeout("tcp", addr, 150*time.Millisecond); err == nil {
			fill = append(fill, c)
		}
	}
	return addr, func() {
		for _, c := range fill {
			c.Close()
		}
		syscall.Close(fd)
	}
}

func runC06tcp(line string) string {
	loadFactor = measureLoad() // the machine's load may have changed since the process started
	hd := strings.SplitN(line, " # ", 2)
	f := strings.Fields(hd[0])
	policy := f[0]
	nb, _ := strconv.Atoi(f[1])
	var bes []*c06Backend
	var hosts []*host.Host
	blackhole := len(f) > 2 && f[2] == "bh"
	for i := 0; i < nb; i++ {
		if blackhole && i == nb-1 {
			addr, closeBh := newBlackhole()
			defer closeBh()
			bes = append(bes, &c06Backend{addr: addr, idx: i})
			hosts = append(hosts, host.New(addr))
			continue
		}
		ln, _ := net.Listen("tcp", "127.0.0.1:0")
		b := &c06Backend{addr: ln.Addr().String(), ln: ln, idx: i, hello: []byte{byte('0' + i)}, release: make(chan struct{})}
		b.serve()
		bes = append(bes, b)
		hosts = append(hosts, host.New(b.addr))
		defer b.down()
	}
	port := freePort()
	cfg := tcpConfig(port)
	switch policy {
	case "least":
		cfg.LbPolicy = service.LoadBalancePolicy_LEAST_CONNECTION
	case "random":
		cfg.LbPolicy = service.LoadBalancePolicy_RANDOM
	default:
		cfg.LbPolicy = service.LoadBalancePolicy_ROUND_ROBIN
	}
	pname := fmt.Sprintf("c06x%d", nextProcSeq())
	p, err := proc.New(pname, cfg, hosts)
	if err != nil {
		return "NEW-FAILED"
	}
	p.Start()
	defer within(3*time.Second, func() { p.Stop() })
	addr := fmt.Sprintf("127.0.0.1:%d", port)
	for t := 0; t < 300; t++ {
		c, err := net.DialTimeout("tcp", addr, 100*time.Millisecond)
		if err == nil {
			c.Close()
			break
		}
		time.Sleep(5 * time.Millisecond)
	}
	// the probe connection was relayed to some backend: wait until its handler has returned (it made one pick of the
	// balancer; a handler still on its way would make that pick between two of ours) and it is gone again
	spx := &simProxy{p: p, name: pname, addr: addr}
	waitFor(3*time.Second, func() bool { return spx.counter("downstream.cx_destroy_total") >= 1 })
	waitFor(3*time.Second, func() bool {
		for _, h := range hosts {
			if h.ConnCount() != 0 {
				return false
			}
		}
		return true
	})
	type kept struct {
		c           net.Conn
		b           int
		open        bool
		backendDone bool // opened with H: the backend has finished its direction
	}
	var ks []*kept
	halfClosed := map[int]bool{}
	var outs, annotated []string
	counts := func() string {
		var xs []string
		for _, h := range hosts {
			xs = append(xs, strconv.FormatUint(h.ConnCount(), 10))
		}
		return strings.Join(xs, ",")
	}
	for _, op := range strings.Fields(hd[1]) {
		arg := 0
		if len(op) > 1 {
			arg, _ = strconv.Atoi(op[1:])
		}
		res := ""
		switch op[0] {
		case 'o', 'H':
			c, err := net.DialTimeout("tcp", addr, time.Second)
			if err != nil {
				res = "noconnect"
				break
			}
			c.SetReadDeadline(time.Now().Add(2 * time.Second))
			b := make([]byte, 1)
			if n, _ := c.Read(b); n == 1 {
				k := &kept{c: c, b: int(b[0] - '0'), open: true, backendDone: op[0] == 'H'}
				ks = append(ks, k)
				res = "b" + string(b)
				if op[0] == 'H' {
					// the backend finishes its direction; the relay goes on in ours, the connection still counts
					c.Write([]byte("H"))
					c.SetReadDeadline(time.Now().Add(time.Duration(float64(2*time.Second) * loadFactor)))
					if n, err := c.Read(b); !(n == 0 && err == io.EOF) {
						res += "-no-eof"
					}
					c.Write([]byte("x"))
				}
			} else {
				c.Close()
				res = "fail"
			}
		case 'O':
			// a connection is opened and, while the processor may still be dialling for it, host <arg> is removed;
			// afterwards the host is added again
			type ores struct {
				c net.Conn
				b int
			}
			ch := make(chan ores, 1)
			go func() {
				c, err := net.DialTimeout("tcp", addr, time.Second)
				if err != nil {
					ch <- ores{nil, -1}
					return
				}
				c.SetReadDeadline(time.Now().Add(3 * time.Second))
				b := make([]byte, 1)
				if n, _ := c.Read(b); n == 1 {
					ch <- ores{c, int(b[0] - '0')}
				} else {
					c.Close()
					ch <- ores{nil, -1}
				}
			}()
			// remove the host once the connection is established, or - when it is not after a while: the processor is
			// presumably still dialling the backend whose connects hang - in the middle of that dial
			var o ores
			got := false
			select {
			case o = <-ch:
				got = true
			case <-time.After(time.Duration(float64(90*time.Millisecond) * loadFactor)):
			}
			p.OnSvcHostRemove([]*host.Host{host.New(bes[arg].addr)})
			acceptedAtRemoval := atomic.LoadInt64(&bes[arg].accepts)
			if !got {
				o = <-ch
			}
			if o.c != nil {
				ks = append(ks, &kept{c: o.c, b: o.b, open: true})
				res = "b" + strconv.Itoa(o.b)
			} else {
				res = "fail"
			}
			closed := 0
			for _, k := range ks {
				if k.open && k.b == arg {
					k.c.SetReadDeadline(time.Now().Add(time.Duration(float64(700*time.Millisecond) * loadFactor)))
					one := make([]byte, 1)
					if _, err := k.c.Read(one); err != nil {
						if ne, ok := err.(net.Error); !(ok && ne.Timeout()) {
							closed++
							k.open = false
							k.c.Close()
						}
					}
				}
			}
			settle(30 * time.Millisecond)
			// a connection that arrives at the backend after its host left the service was selected from a stale list
			res += fmt.Sprintf(" closed=%d late=%d", closed, atomic.LoadInt64(&bes[arg].accepts)-acceptedAtRemoval)
			h := host.New(bes[arg].addr)
			hosts[arg] = h
			p.OnSvcHostAdd([]*host.Host{h})
		case 'U':
			// a configuration update that changes neither the policy nor the hosts (another idle timeout)
			nc := tcpConfig(port)
			nc.LbPolicy = cfg.LbPolicy
			nc.IdleTimeout = utils.DurationPtr(time.Duration(601+arg) * time.Second)
			p.OnSvcConfigUpdate(nc)
		case 'h':
			// the client has finished sending (half-close); the connection stays established and counted
			if arg < len(ks) && ks[arg].open {
				if tc, ok := ks[arg].c.(*net.TCPConn); ok {
					tc.Write([]byte("h"))
					time.Sleep(5 * time.Millisecond)
					tc.CloseWrite()
					if ks[arg].backendDone {
						// both directions are over now: the relay ends, the connection no longer counts
						ks[arg].open = false
						ks[arg].c.Close()
					} else {
						halfClosed[arg] = true
					}
				}
			}
		case 'c':
			// (a connection whose client has already finished sending is left alone: once it closes for good the relay
			// cannot tell before the backend says something)
			if arg < len(ks) && ks[arg].open && !halfClosed[arg] {
				ks[arg].c.Close()
				ks[arg].open = false
			}
		case 'd':
			if arg < nb {
				bes[arg].down()
			}
		case 'u':
			if arg < nb {
				bes[arg].up()
			}
		case 'r':
			if arg < nb {
				// the backend does not react to a FIN for a while: the removal must close the client's side by itself
				atomic.StoreInt32(&bes[arg].stubborn, 1)
				p.OnSvcHostRemove([]*host.Host{host.New(bes[arg].addr)})
				closed := 0
				for _, k := range ks {
					if k.open && k.b == arg {
						k.c.SetReadDeadline(time.Now().Add(time.Duration(float64(1500*time.Millisecond) * loadFactor)))
						one := make([]byte, 1)
						if _, err := k.c.Read(one); err != nil {
							if ne, ok := err.(net.Error); !(ok && ne.Timeout()) {
								closed++
								k.open = false
								k.c.Close()
							}
						}
					}
				}
				atomic.StoreInt32(&bes[arg].stubborn, 0)
				res = fmt.Sprintf("closed=%d", closed)
			}
		case 'a':
			if arg < nb {
				h := host.New(bes[arg].addr)
				hosts[arg] = h
				p.OnSvcHostAdd([]*host.Host{h})
			}
		}
		// the counts follow the relays' goroutines: give them time to reach what the kept connections imply
		waitFor(2*time.Second, func() bool {
			want := make([]uint64, nb)
			for _, k := range ks {
				if k.open {
					want[k.b]++
				}
			}
			for i, h := range hosts {
				if h.ConnCount() != want[i] {
					return false
				}
			}
			return true
		})
		outs = append(outs, strings.TrimSpace(res+" "+counts()))
		if op[0] == 'O' {
			annotated = append(annotated, op+":"+strings.Fields(res)[0])
		} else if op[0] == 'o' || op[0] == 'H' {
			annotated = append(annotated, op[:1]+":"+res)
		} else {
			annotated = append(annotated, op)
		}
	}
	c06Annotated = hd[0] + " # " + strings.Join(annotated, " ")
	for _, b := range bes {
		if b.release != nil {
			close(b.release)
		}
	}
	for _, k := range ks {
		if k.open {
			k.c.Close()
		}
	}
	waitFor(3*time.Second, func() bool {
		for _, h := range hosts {
			if h.ConnCount() != 0 {
				return false
			}
		}
		return true
	})
	// the processor's own upstream connection statistics at quiescence (C20)
	waitFor(2*time.Second, func() bool {
		return spx.gauge("upstream.cx_active") == 0 && spx.counter("upstream.cx_total") == spx.counter("upstream.cx_destroy_total")
	})
	up := "ok"
	if t, d, a := spx.counter("upstream.cx_total"), spx.counter("upstream.cx_destroy_total"), int64(spx.gauge("upstream.cx_active")); t != d || a != 0 {
		up = fmt.Sprintf("BAD:total=%d,destroyed=%d,active=%d", t, d, a)
	}
	outs = append(outs, "end "+counts()+" upstream="+up)
	return strings.Join(outs, " ; ")
}

func init() {
	register("c06tcp", func() {
		cases, impl := create("cases.txt"), create("impl.txt")
		hist := map[string]int{}
		var lines []string
		if *fIn != "" {
			lines = readLines(*fIn)
		} else {
			r := newRng(*fSeed)
			lines = append(lines, "least 2 # d0 o o o o o o u0 o o c0 c1 o", "rr 3 # o o o o o o r1 o o o a1 o o o", "rr 3 # o U0 o o U1 o o o U2 o o o U3 o", "least 2 # H H H o o o c0 o c1 o o", "rr 4 # d0 o o o o u0 o o o o o o o o", "rr 2 # o o o o h0 h1 r0 h2 r1", "rr 3 # o d1 o o o u1 o o o o o o",
				"rr 3 bh # O0 O1 O0 O1 O0 O1 O0 O1 O0", "random 3 bh # O1 O0 O1 O0 O1 O0 O1 O0 O1 O0")
			for i := 0; i < *fN; i++ {
				nb := 2 + r.intn(2)
				policy := []string{"rr", "least", "random"}[r.intn(3)]
				var ops []string
				nk := 0
				removed := map[int]bool{}
				for j, nj := 0, 4+r.intn(16); j < nj; j++ {
					switch r.intn(11) {
					case 10:
						ops = append(ops, fmt.Sprintf("U%d", r.intn(50)))
					case 0:
						ops = append(ops, fmt.Sprintf("d%d", r.intn(nb)))
					case 1:
						ops = append(ops, fmt.Sprintf("u%d", r.intn(nb)))
					case 2:
						if nk > 0 {
							ops = append(ops, fmt.Sprintf("c%d", r.intn(nk)))
						}
					case 3:
						if x := r.intn(nb); !removed[x] && len(removed) < nb-1 {
							removed[x] = true
							ops = append(ops, fmt.Sprintf("r%d", x))
						}
					case 4:
						for x := range removed {
							delete(removed, x)
							ops = append(ops, fmt.Sprintf("a%d", x))
							break
						}
					case 9:
						if nk > 0 && r.chance(1, 2) {
							ops = append(ops, fmt.Sprintf("h%d", r.intn(nk)))
							continue
						}
						ops = append(ops, "H")
						nk++
					default:
						ops = append(ops, "o")
						nk++
					}
				}
				lines = append(lines, fmt.Sprintf("%s %d # %s", policy, nb, strings.Join(ops, " ")))
				hist["policy="+policy]++
			}
		}
		for _, l := range lines {
			// a replayed line carries the outcomes of an earlier run: strip them
			out := runC06tcp(strings.NewReplacer(":b0", "", ":b1", "", ":b2", "", ":b3", "", ":fail", "", ":noconnect", "").Replace(l))
			fmt.Fprintln(cases, c06Annotated)
			fmt.Fprintln(impl, out)
		}
		writeHist(hist)
	})
}
