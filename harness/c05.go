package main

// C05: the TCP processor between a scripted client and a scripted backend.
//   case line:  <seed> <c2b bytes> <b2c bytes> <order> <cchunk> <bchunk>
//     order: c = the client finishes first and the backend answers only after it has seen the client's end-of-stream;
//            b = the backend finishes first, the client sends afterwards;  x = both send at the same time
//     chunks: maximal write size of each side (1 = byte by byte with pauses)
//   data: byte i of a stream is (i*131 + seed*17 + i/256) mod 256 (c2b) resp. (i*137 + seed*29 + i/256 + 7) mod 256 (b2c)
//   output: c2b=<len>:<fnv32> eof=<1|0>  b2c=<len>:<fnv32> eof=<1|0>  upstream=<total>/<destroyed>/<active>

import (
	"fmt"
	"hash/fnv"
	"io"
	"net"
	"strings"
	"time"

	"github.com/samaritan-proxy/samaritan/host"
	"github.com/samaritan-proxy/samaritan/proc"
	"github.com/samaritan-proxy/samaritan/utils"
)

func c05Data(seed, n int, b2c bool) []byte {
	d := make([]byte, n)
	for i := range d {
		if b2c {
			d[i] = byte(i*137 + seed*29 + i/256 + 7)
		} else {
			d[i] = byte(i*131 + seed*17 + i/256)
		}
	}
	return d
}

func sumOf(b []byte) string {
	h := fnv.New32a()
	h.Write(b)
	return fmt.Sprintf("%d:%08x", len(b), h.Sum32())
}

func writeChunks(c net.Conn, d []byte, chunk int) {
	writes := 0
	for len(d) > 0 {
		k := chunk
		if k > len(d) {
			k = len(d)
		}
		if _, err := c.Write(d[:k]); err != nil {
			return
		}
		d = d[k:]
		writes++
		if chunk < 64 && writes < 200 { // pace the first writes only: a nap can take a millisecond on a busy machine
			time.Sleep(20 * time.Microsecond)
		}
	}
}

func runC05(line string) string {
	var seed, nc, nb, cch, bch int
	var order string
	var paceMs, idleMs, bslowMs int // optional: pause between writes, idle timeout of the service, backend pause per 256 KiB read
	fmt.Sscanf(line, "%d %d %d %s %d %d %d %d %d", &seed, &nc, &nb, &order, &cch, &bch, &paceMs, &idleMs, &bslowMs)
	readAll := func(c net.Conn) ([]byte, error) {
		if bslowMs == 0 {
			return io.ReadAll(c)
		}
		var all []byte
		buf := make([]byte, 256<<10)
		for {
			n, err := c.Read(buf)
			all = append(all, buf[:n]...)
			if err == io.EOF {
				return all, nil
			}
			if err != nil {
				return all, err
			}
			time.Sleep(time.Duration(bslowMs) * time.Millisecond)
		}
	}
	write := func(c net.Conn, d []byte, chunk int) {
		if paceMs == 0 {
			writeChunks(c, d, chunk)
			return
		}
		for len(d) > 0 {
			k := chunk
			if k > len(d) {
				k = len(d)
			}
			if _, err := c.Write(d[:k]); err != nil {
				return
			}
			d = d[k:]
			time.Sleep(time.Duration(paceMs) * time.Millisecond)
		}
	}
	ln, _ := net.Listen("tcp", "127.0.0.1:0")
	defer ln.Close()
	type res struct {
		got []byte
		eof bool
	}
	bres := make(chan res, 1)
	cdata, bdata := c05Data(seed, nc, false), c05Data(seed, nb, true)
	go func() { // the backend
		c, err := ln.Accept()
		if err != nil {
			bres <- res{}
			return
		}
		defer c.Close()
		tc := c.(*net.TCPConn)
		c.SetDeadline(time.Now().Add(time.Duration(float64(10*time.Second) * loadFactor)))
		switch order {
		case "c": // read everything first, then answer
			got, err := readAll(c)
			write(c, bdata, bch)
			tc.CloseWrite()
			bres <- res{got, err == nil}
		case "b": // answer first, then read
			write(c, bdata, bch)
			tc.CloseWrite()
			got, err := readAll(c)
			bres <- res{got, err == nil}
		default:
			done := make(chan struct{})
			go func() { write(c, bdata, bch); tc.CloseWrite(); close(done) }()
			got, err := readAll(c)
			<-done
			bres <- res{got, err == nil}
		}
	}()
	port := freePort()
	cfg := tcpConfig(port)
	if idleMs > 0 {
		cfg.IdleTimeout = utils.DurationPtr(time.Duration(idleMs) * time.Millisecond)
	}
	pname := fmt.Sprintf("c05x%d", nextProcSeq())
	p, err := proc.New(pname, cfg, []*host.Host{host.New(ln.Addr().String())})
	if err != nil {
		return "NEW-FAILED"
	}
	p.Start()
	sp := &simProxy{p: p, name: pname, addr: fmt.Sprintf("127.0.0.1:%d", port)}
	var c net.Conn
	for t := 0; t < 300; t++ {
		c, err = net.DialTimeout("tcp", sp.addr, 100*time.Millisecond)
		if err == nil {
			break
		}
		time.Sleep(5 * time.Millisecond)
	}
	if c == nil {
		return "NOT-LISTENING"
	}
	tc := c.(*net.TCPConn)
	c.SetDeadline(time.Now().Add(time.Duration(float64(10*time.Second) * loadFactor)))
	var cgot []byte
	var cerr error
	switch order {
	case "c":
		write(c, cdata, cch)
		tc.CloseWrite()
		cgot, cerr = io.ReadAll(c)
	case "b":
		cgot, cerr = io.ReadAll(c)
		write(c, cdata, cch)
		tc.CloseWrite()
	default:
		done := make(chan struct{})
		go func() { write(c, cdata, cch); tc.CloseWrite(); close(done) }()
		cgot, cerr = io.ReadAll(c)
		<-done
	}
	b := <-bres
	c.Close()
	waitFor(3*time.Second, func() bool {
		return sp.counter("upstream.cx_total") == 1 && sp.counter("upstream.cx_destroy_total") == 1 && sp.gauge("upstream.cx_active") == 0
	})
	up := fmt.Sprintf("%d/%d/%d", sp.counter("upstream.cx_total"), sp.counter("upstream.cx_destroy_total"), int64(sp.gauge("upstream.cx_active")))
	within(3*time.Second, func() { p.Stop() })
	bi := func(x bool) int {
		if x {
			return 1
		}
		return 0
	}
	return fmt.Sprintf("c2b=%s eof=%d b2c=%s eof=%d upstream=%s", sumOf(b.got), bi(b.eof), sumOf(cgot), bi(cerr == nil), up)
}

func init() {
	register("c05", func() {
		cases, impl := create("cases.txt"), create("impl.txt")
		hist := map[string]int{}
		var lines []string
		if *fIn != "" {
			lines = readLines(*fIn)
		} else {
			r := newRng(*fSeed)
			lines = append(lines, "7 60 60 x 1 1 50 2000 0", "9 6291456 10 b 1048576 10 0 0 40")
			sizes := []int{0, 1, 2, 100, 4095, 16383, 16384, 16385, 40000, 100000}
			for i := 0; i < *fN; i++ {
				nc, nb := sizes[r.intn(len(sizes))], sizes[r.intn(len(sizes))]
				if r.chance(1, 3) {
					nc, nb = r.intn(70000), r.intn(70000)
				}
				ch := func(n int) int {
					switch r.intn(4) {
					case 0:
						if n <= 3000 {
							return 1
						}
						return 1 + r.intn(50)
					case 1:
						return 1 + r.intn(5000)
					default:
						return 1 << 20
					}
				}
				lines = append(lines, fmt.Sprintf("%d %d %d %s %d %d", r.intn(1000), nc, nb, []string{"c", "b", "x"}[r.intn(3)], ch(nc), ch(nb)))
			}
		}
		for _, l := range lines {
			fmt.Fprintln(cases, l)
			fmt.Fprintln(impl, runC05(l))
			hist["order="+strings.Fields(l)[3]]++
		}
		writeHist(hist)
	})
}
