package main

// C05: the TCP processor between a scripted client and a scripted backend.
//   case line:  <seed> <c2b bytes> <b2c bytes> <order> <cchunk> <bchunk>
//     order: c = the client finishes first and the backend answers only after it has seen the client's end-of-stream;
//            b = the backend finishes first, the client sends afterwards;  x = both send at the same time
//            p = lockstep: the client sends one chunk and waits until the backend has received it, the backend answers with
//                one chunk and the client waits for it, and so on (a request/response protocol); a chunk that does not
//                arrive within 1.5 s (times the load factor) while the connection is open is a stall
//     chunks: maximal write size of each side (1 = byte by byte with pauses)
//     optional: pause between writes (ms), idle timeout of the service (ms), backend pause per 256 KiB read (ms),
//               pause before the backend starts to read (ms)
//   data: byte i of a stream is (i*131 + seed*17 + i/256) mod 256 (c2b) resp. (i*137 + seed*29 + i/256 + 7) mod 256 (b2c)
//   output: c2b=<len>:<fnv32> eof=<1|0>  b2c=<len>:<fnv32> eof=<1|0>  upstream=<total>/<destroyed>/<active>

import (
	"fmt"
	"hash/fnv"
	"io"
	"net"
	"strings"
	"time"

	"github.com/samaritan-proxy/samaritan/host"
	"github.com/samaritan-proxy/samaritan/proc"
	"github.com/samaritan-proxy/samaritan/utils"
)

func c05Data(seed, n int, b2c bool) []byte {
	d := make([]byte, n)
	for i := range d {
		if b2c {
			d[i] = byte(i*137 + seed*29 + i/256 + 7)
		} else {
			d[i] = byte(i*131 + seed*17 + i/256)
		}
	}
	return d
}

func sumOf(b []byte) string {
	h := fnv.New32a()
	h.Write(b)
	return fmt.Sprintf("%d:%08x", len(b), h.Sum32())
}

func writeChunks(c net.Conn, d []byte, chunk int) {
	writes := 0
	for len(d) > 0 {
		k := chunk
		if k > len(d) {
			k = len(d)
		}
		if _, err := c.Write(d[:k]); err != nil {
			return
		}
		d = d[k:]
		writes++
		if chunk < 64 && writes < 200 { // pace the first writes only: a nap can take a millisecond on a busy machine
			time.Sleep(20 * time.Microsecond)
		}
	}
}

func runC05(line string) string {
	var seed, nc, nb, cch, bch int
	var order string
	var paceMs, idleMs, bslowMs, bstartMs int
	fmt.Sscanf(line, "%d %d %d %s %d %d %d %d %d %d", &seed, &nc, &nb, &order, &cch, &bch, &paceMs, &idleMs, &bslowMs, &bstartMs)
	readAll := func(c net.Conn) ([]byte, error) {
		if bstartMs > 0 {
			time.Sleep(time.Duration(bstartMs) * time.Millisecond)
		}
		if bslowMs == 0 {
			return io.ReadAll(c)
		}
		var all []byte
		buf := make([]byte, 256<<10)
		for {
			n, err := c.Read(buf)
			all = append(all, buf[:n]...)
			if err == io.EOF {
				return all, nil
			}
			if err != nil {
				return all, err
			}
			time.Sleep(time.Duration(bslowMs) * time.Millisecond)
		}
	}
	write := func(c net.Conn, d []byte, chunk int) {
		if paceMs == 0 {
			writeChunks(c, d, chunk)
			return
		}
		for len(d) > 0 {
			k := chunk
			if k > len(d) {
				k = len(d)
			}
			if _, err := c.Write(d[:k]); err != nil {
				return
			}
			d = d[k:]
			time.Sleep(time.Duration(paceMs) * time.Millisecond)
		}
	}
	ln, _ := net.Listen("tcp", "127.0.0.1:0")
	defer ln.Close()
	type res struct {
		got []byte
		eof bool
	}
	bres := make(chan res, 1)
	bconn := make(chan net.Conn, 1)
	cdata, bdata := c05Data(seed, nc, false), c05Data(seed, nb, true)
	go func() { // the backend
		c, err := ln.Accept()
		if err != nil {
			bres <- res{}
			bconn <- nil
			return
		}
		if order == "p" {
			bconn <- c // driven in lockstep by the client side below
			return
		}
		defer c.Close()
		tc := c.(*net.TCPConn)
		if bstartMs > 0 {
			tc.SetReadBuffer(128 << 10) // fixed (no autotuning): what it does not read stays in the relay
		}
		c.SetDeadline(time.Now().Add(time.Duration(float64(10*time.Second) * loadFactor)))
		switch order {
		case "c": // read everything first, then answer
			got, err := readAll(c)
			write(c, bdata, bch)
			tc.CloseWrite()
			bres <- res{got, err == nil}
		case "b": // answer first, then read
			write(c, bdata, bch)
			tc.CloseWrite()
			got, err := readAll(c)
			bres <- res{got, err == nil}
		default:
			done := make(chan struct{})
			go func() { write(c, bdata, bch); tc.CloseWrite(); close(done) }()
			got, err := readAll(c)
			<-done
			bres <- res{got, err == nil}
		}
	}()
	port := freePort()
	cfg := tcpConfig(port)
	if idleMs > 0 {
		cfg.IdleTimeout = utils.DurationPtr(time.Duration(idleMs) * time.Millisecond)
	}
	pname := fmt.Sprintf("c05x%d", nextProcSeq())
	p, err := proc.New(pname, cfg, []*host.Host{host.New(ln.Addr().String())})
	if err != nil {
		return "NEW-FAILED"
	}
	p.Start()
	sp := &simProxy{p: p, name: pname, addr: fmt.Sprintf("127.0.0.1:%d", port)}
	var c net.Conn
	for t := 0; t < 300; t++ {
		c, err = net.DialTimeout("tcp", sp.addr, 100*time.Millisecond)
		if err == nil {
			break
		}
		time.Sleep(5 * time.Millisecond)
	}
	if c == nil {
		return "NOT-LISTENING"
	}
	tc := c.(*net.TCPConn)
	c.SetDeadline(time.Now().Add(time.Duration(float64(10*time.Second) * loadFactor)))
	var cgot []byte
	var cerr error
	if order == "p" {
		bc := <-bconn
		if bc == nil {
			c.Close()
			within(3*time.Second, func() { p.Stop() })
			return "NOT-ACCEPTED"
		}
		out := c05Lockstep(c, bc, cdata, bdata, cch, bch)
		c.Close()
		bc.Close()
		waitFor(3*time.Second, func() bool {
			return sp.counter("upstream.cx_total") == 1 && sp.counter("upstream.cx_destroy_total") == 1 && sp.gauge("upstream.cx_active") == 0
		})
		up := fmt.Sprintf("%d/%d/%d", sp.counter("upstream.cx_total"), sp.counter("upstream.cx_destroy_total"), int64(sp.gauge("upstream.cx_active")))
		within(3*time.Second, func() { p.Stop() })
		return out + " upstream=" + up
	}
	switch order {
	case "c":
		write(c, cdata, cch)
		tc.CloseWrite()
		cgot, cerr = io.ReadAll(c)
	case "b":
		cgot, cerr = io.ReadAll(c)
		write(c, cdata, cch)
		tc.CloseWrite()
	default:
		done := make(chan struct{})
		go func() { write(c, cdata, cch); tc.CloseWrite(); close(done) }()
		cgot, cerr = io.ReadAll(c)
		<-done
	}
	b := <-bres
	c.Close()
	waitFor(3*time.Second, func() bool {
		return sp.counter("upstream.cx_total") == 1 && sp.counter("upstream.cx_destroy_total") == 1 && sp.gauge("upstream.cx_active") == 0
	})
	up := fmt.Sprintf("%d/%d/%d", sp.counter("upstream.cx_total"), sp.counter("upstream.cx_destroy_total"), int64(sp.gauge("upstream.cx_active")))
	within(3*time.Second, func() { p.Stop() })
	bi := func(x bool) int {
		if x {
			return 1
		}
		return 0
	}
	return fmt.Sprintf("c2b=%s eof=%d b2c=%s eof=%d upstream=%s", sumOf(b.got), bi(b.eof), sumOf(cgot), bi(cerr == nil), up)
}

// c05Lockstep: chunks alternate; each must have arrived at the other end before the next is sent
func c05Lockstep(c, bc net.Conn, cdata, bdata []byte, cch, bch int) string {
	limit := func(k int) int {
		if k > 20000 {
			return 20000 // a chunk must fit the socket buffers: the same goroutine writes it and then reads it
		}
		return k
	}
	cch, bch = limit(cch), limit(bch)
	// at most 4000 round trips per direction
	if m := len(cdata)/4000 + 1; cch < m {
		cch = m
	}
	if m := len(bdata)/4000 + 1; bch < m {
		bch = m
	}
	wait := time.Duration(float64(1500*time.Millisecond) * loadFactor)
	var bgot, cgot []byte
	stall := ""
	pass := func(from, to net.Conn, d []byte, got *[]byte, name string) bool {
		if _, err := from.Write(d); err != nil {
			stall = fmt.Sprintf(" WRITE-FAILED %s at %d", name, len(*got))
			return false
		}
		buf := make([]byte, len(d))
		to.SetReadDeadline(time.Now().Add(wait))
		n, err := io.ReadFull(to, buf)
		*got = append(*got, buf[:n]...)
		if err != nil {
			stall = fmt.Sprintf(" STALL %s: %d of %d bytes of the chunk at offset %d arrived", name, n, len(d), len(*got)-n)
			return false
		}
		return true
	}
	ci, bi := 0, 0
	for ci < len(cdata) || bi < len(bdata) {
		if ci < len(cdata) {
			k := cch
			if k > len(cdata)-ci {
				k = len(cdata) - ci
			}
			if !pass(c, bc, cdata[ci:ci+k], &bgot, "c2b") {
				break
			}
			ci += k
		}
		if bi < len(bdata) {
			k := bch
			if k > len(bdata)-bi {
				k = len(bdata) - bi
			}
			if !pass(bc, c, bdata[bi:bi+k], &cgot, "b2c") {
				break
			}
			bi += k
		}
	}
	ceof, beof := 0, 0
	if stall == "" {
		// the client finishes: the backend sees end-of-stream, and only then finishes itself
		one := make([]byte, 1)
		c.(*net.TCPConn).CloseWrite()
		bc.SetReadDeadline(time.Now().Add(wait))
		if n, err := bc.Read(one); n == 0 && err == io.EOF {
			beof = 1
		}
		bc.(*net.TCPConn).CloseWrite()
		c.SetReadDeadline(time.Now().Add(wait))
		if n, err := c.Read(one); n == 0 && err == io.EOF {
			ceof = 1
		}
	}
	return fmt.Sprintf("c2b=%s eof=%d b2c=%s eof=%d%s", sumOf(bgot), beof, sumOf(cgot), ceof, stall)
}

func init() {
	register("c05", func() {
		cases, impl := create("cases.txt"), create("impl.txt")
		hist := map[string]int{}
		var lines []string
		if *fIn != "" {
			lines = readLines(*fIn)
		} else {
			r := newRng(*fSeed)
			lines = append(lines, "7 60 60 x 1 1 50 2000 0", "9 6291456 10 b 1048576 10 0 0 40",
				"3 7 5 p 1 1", "11 16385 3 p 16384 1", "5 40000 16385 p 5000 16384",
				// the backend has finished and starts to read late, longer than the idle timeout: what piles up in the relay must still arrive
				"13 8388608 0 b 1048576 10 0 400 0 1200",
				// large uploads towards slow readers, and large downloads: the tail and the end-of-stream after it
				"21 3145728 7 c 65536 7 0 0 25", "22 4194304 0 c 1048576 1 0 0 30", "23 2097152 2097152 x 32768 32768 0 0 20", "24 5242880 11 b 262144 11 0 0 35")
			sizes := []int{0, 1, 2, 100, 4095, 16383, 16384, 16385, 40000, 100000}
			for i := 0; i < *fN; i++ {
				nc, nb := sizes[r.intn(len(sizes))], sizes[r.intn(len(sizes))]
				if r.chance(1, 3) {
					nc, nb = r.intn(70000), r.intn(70000)
				}
				ch := func(n int) int {
					switch r.intn(4) {
					case 0:
						if n <= 3000 {
							return 1
						}
						return 1 + r.intn(50)
					case 1:
						return 1 + r.intn(5000)
					default:
						return 1 << 20
					}
				}
				lines = append(lines, fmt.Sprintf("%d %d %d %s %d %d", r.intn(1000), nc, nb, []string{"c", "b", "x", "p"}[r.intn(4)], ch(nc), ch(nb)))
			}
		}
		for _, l := range lines {
			fmt.Fprintln(cases, l)
			fmt.Fprintln(impl, runC05(l))
			hist["order="+strings.Fields(l)[3]]++
		}
		writeHist(hist)
	})
}
