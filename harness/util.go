package main

import (
	"bufio"
	"encoding/json"
	"os"
	"path/filepath"
)

func readLines(path string) []string {
	f, err := os.Open(path)
	if err != nil {
		die("%v", err)
	}
	defer f.Close()
	var out []string
	sc := bufio.NewScanner(f)
	sc.Buffer(make([]byte, 1<<20), 1<<28)
	for sc.Scan() {
		out = append(out, sc.Text())
	}
	return out
}

// writeHist records the distribution of generated cases (kinds, sizes, error classes).
func writeHist(h map[string]int) {
	b, _ := json.Marshal(h)
	os.WriteFile(filepath.Join(*fOut, "hist.json"), b, 0644)
}
