package main

import (
	"bufio"
	"encoding/json"
	"os"
	"path/filepath"
	"sync/atomic"
	"time"

	"github.com/samaritan-proxy/samaritan/proc/redis"
)

func readLines(path string) []string {
	f, err := os.Open(path)
	if err != nil {
		die("%v", err)
	}
	defer f.Close()
	var out []string
	sc := bufio.NewScanner(f)
	sc.Buffer(make([]byte, 1<<20), 1<<28)
	for sc.Scan() {
		out = append(out, sc.Text())
	}
	return out
}

// writeHist records the distribution of generated cases (kinds, sizes, error classes).
func writeHist(h map[string]int) {
	b, _ := json.Marshal(h)
	os.WriteFile(filepath.Join(*fOut, "hist.json"), b, 0644)
}

// ---- waiting: conditions are polled, never assumed after a fixed nap; naps that cannot be avoided are scaled by how
// slowly this machine schedules right now (measured once per process)

var loadFactor = measureLoad()

func measureLoad() float64 {
	t0 := time.Now()
	for i := 0; i < 20; i++ {
		time.Sleep(time.Millisecond)
	}
	f := float64(time.Since(t0)) / float64(22*time.Millisecond)
	if f < 1 {
		f = 1
	}
	if f > 25 {
		f = 25
	}
	return f
}

func settle(d time.Duration) { time.Sleep(time.Duration(float64(d) * loadFactor)) }

func waitFor(max time.Duration, cond func() bool) bool {
	deadline := time.Now().Add(time.Duration(float64(max) * loadFactor))
	for {
		if cond() {
			return true
		}
		if time.Now().After(deadline) {
			return false
		}
		time.Sleep(2 * time.Millisecond)
	}
}

// processors get process-wide unique names: their statistics live in a global registry keyed by name, and a port number
// can come back
var procSeq int64

func nextProcSeq() int64 { return atomic.AddInt64(&procSeq, 1) }

// envDo: one request through the white-box environment; a reply that is still being changed after the request has
// completed (a session writer may encode it from that moment on) is reported as an error no model produces
func envDo(e *redis.VerifEnv, v *redis.RespValue, timeout time.Duration) (*redis.RespValue, bool) {
	reply, timedOut, stable := e.DoChecked(v, timeout)
	if !stable {
		bad := redis.RespValue{Type: redis.Error, Text: []byte("REPLY-CHANGED-AFTER-COMPLETION")}
		return &bad, false
	}
	return reply, timedOut
}
