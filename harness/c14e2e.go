package main

// C14 end to end over layout histories: which node a command is sent to first, as the replica assignment changes.
//   case line:  <strategy 0=master 1=both 2=replica> <nmasters> <layout> # ops
//   ops: ar<m>      a new replica of master m joins (node index = number of nodes so far)
//        mr<r>,<m>  replica node r now replicates master m (CLUSTER REPLICATE); the slots stay where they are
//        w          two refresh rounds of the routing table complete (the table is current afterwards)
//        g<hexkey>  GET      s<hexkey>  SET key v
//   every request follows a w after the last change, so the table the proxy routes by is the layout of that moment.
//   output per request: <reply>@<tag>  tag: M = first sent to the master owning the slot, R = to a replica of that
//   master, X<node> = to a node that neither owns the slot nor replicates its owner

import (
	"encoding/hex"
	"fmt"
	"strconv"
	"strings"
	"time"

	"github.com/samaritan-proxy/samaritan/proc/redis"
)

func runC14e2e(line string) string {
	loadFactor = measureLoad()
	hd := strings.SplitN(line, " # ", 2)
	f := strings.Fields(hd[0])
	strategy, _ := strconv.Atoi(f[0])
	n, _ := strconv.Atoi(f[1])
	cl := newSimCluster(n)
	defer cl.close()
	var layout [][3]int
	for _, r := range strings.Split(f[2], ",") {
		var lo, hi, nd int
		fmt.Sscanf(r, "%d-%d=%d", &lo, &hi, &nd)
		layout = append(layout, [3]int{lo, hi, nd})
	}
	cl.setLayout(layout)
	var seeds []string
	for _, nd := range cl.nodes {
		seeds = append(seeds, nd.addr)
	}
	// the replicas named before the first w are there when the proxy starts
	ops := strings.Fields(hd[1])
	for len(ops) > 0 && ops[0][0] == 'a' {
		if m, _ := strconv.Atoi(ops[0][2:]); m < n {
			cl.mu.Lock()
			cl.addNode(m)
			cl.mu.Unlock()
		}
		ops = ops[1:]
	}
	// a periodic refresh every 40 ms: the table follows the layout without any redirection
	simTimersOnce.Do(func() { redis.VerifSetSlotsRefresh(40*time.Millisecond, 10*time.Millisecond) })
	sp := startRedisProxy(seeds, int32(strategy))
	defer stopProxy(sp)
	if !sp.waitSlotsLoaded(1) {
		return "SLOTS-NOT-LOADED"
	}
	sc := dialProxy(sp.addr)
	defer sc.close()
	var outs []string
	for _, op := range ops {
		switch op[0] {
		case 'a':
			m, _ := strconv.Atoi(op[2:])
			cl.mu.Lock() // listen() takes no lock; the nodes list is read under it
			if m < len(cl.nodes) && cl.nodes[m].master < 0 {
				cl.addNode(m)
			}
			cl.mu.Unlock()
		case 'm':
			var r, m int
			fmt.Sscanf(op[2:], "%d,%d", &r, &m)
			cl.mu.Lock()
			if r < len(cl.nodes) && m < len(cl.nodes) && cl.nodes[r].master >= 0 && cl.nodes[m].master < 0 {
				cl.nodes[r].master = m
				cl.nodes[r].store = cl.nodes[m].store
			}
			cl.mu.Unlock()
		case 'w':
			before := sp.counter("upstream.slots_refresh.success_total")
			waitFor(3*time.Second, func() bool { return sp.counter("upstream.slots_refresh.success_total") >= before+2 })
		case 'g', 's':
			key, _ := hex.DecodeString(op[1:])
			v := bulkArr([]byte("get"), key)
			if op[0] == 's' {
				v = bulkArr([]byte("set"), key, []byte("v"))
			}
			cl.mu.Lock()
			for _, nd := range cl.nodes {
				nd.log = nil
			}
			cl.mu.Unlock()
			sc.send(v.bytes(), nil)
			r, err := sc.recv(4 * time.Second)
			if err != nil {
				outs = append(outs, "TIMEOUT")
				continue
			}
			cl.mu.Lock()
			first, firstSeq := -1, 0
			for _, nd := range cl.nodes {
				for _, e := range nd.log {
					if (e.result == "exec" || e.result == "moved" || e.result == "ask") && (first < 0 || e.seq < firstSeq) {
						first, firstSeq = nd.idx, e.seq
					}
				}
			}
			tag := "none"
			if first >= 0 {
				own := cl.owner[simSlot(key)]
				switch {
				case first == own:
					tag = "M"
				case cl.nodes[first].master == own:
					tag = "R"
				default:
					tag = "X" + strconv.Itoa(first)
				}
			}
			cl.mu.Unlock()
			outs = append(outs, r.String()+"@"+tag)
		}
	}
	return strings.Join(outs, " ")
}

func init() {
	register("c14e2e", func() {
		cases, impl := create("cases.txt"), create("impl.txt")
		hist := map[string]int{}
		runLine := func(line string) {
			fmt.Fprintln(cases, line)
			fmt.Fprintln(impl, runC14e2e(line))
		}
		if *fIn != "" {
			for _, l := range readLines(*fIn) {
				runLine(l)
			}
			writeHist(hist)
			return
		}
		r := newRng(*fSeed)
		for i := 0; i < *fN && !expired(); i++ {
			n := 2 + r.intn(2)
			strategy := r.intn(3)
			var keys []string
			for j := 0; j < 6; j++ {
				keys = append(keys, hex.EncodeToString([]byte("k"+strconv.Itoa(r.intn(60)))))
			}
			var ops []string
			nodes := n
			var replicas []int
			reqs := func() {
				ops = append(ops, "w")
				for j, nj := 0, 2+r.intn(6); j < nj; j++ {
					ops = append(ops, string("gggs"[r.intn(4)])+keys[r.intn(len(keys))])
				}
			}
			// some replicas to begin with
			for j, nj := 0, r.intn(3); j < nj; j++ {
				ops = append(ops, fmt.Sprintf("ar%d", r.intn(n)))
				replicas = append(replicas, nodes)
				nodes++
			}
			reqs()
			for j, nj := 0, 1+r.intn(4); j < nj; j++ {
				if len(replicas) > 0 && r.chance(2, 3) {
					ops = append(ops, fmt.Sprintf("mr%d,%d", replicas[r.intn(len(replicas))], r.intn(n)))
				} else {
					ops = append(ops, fmt.Sprintf("ar%d", r.intn(n)))
					replicas = append(replicas, nodes)
					nodes++
				}
				reqs()
			}
			hist[fmt.Sprintf("strategy=%d", strategy)]++
			runLine(fmt.Sprintf("%d %d %s # %s", strategy, n, c03Layout(r, n), strings.Join(ops, " ")))
		}
		writeHist(hist)
	})
}
