package main

// C14 end to end over layout histories: which node a command is sent to first, as the replica assignment changes.
//   case line:  <strategy 0=master 1=both 2=replica> <nmasters> <layout> # ops
//   ops: ar<m>      a new replica of master m joins (node index = number of nodes so far)
//        mr<r>,<m>  replica node r now replicates master m (CLUSTER REPLICATE); the slots stay where they are
//        w          two refresh rounds of the routing table complete (the table is current afterwards)
//        g<hexkey>  GET      s<hexkey>  SET key v
//        d<m> / u<m> master m stops / listens again (its replicas stay up; the table keeps naming it as the owner)
//        k<n>       the established connections of node n are reset
//        L          load: four connections write 300 fresh keys each at the same time (while the table is being refreshed)
//   mode c14e2et: no periodic refresh (w does nothing): the table follows redirections only; a request that is redirected
//   waits for the refresh it triggered, so between two changes at most one request may be sent to a wrong node first
//   every request follows a w after the last change, so the table the proxy routes by is the layout of that moment.
//   output per request: <reply>@<tag>  tag: M = first sent to the master owning the slot, R = to a replica of that
//   master, X<node> = to a node that neither owns the slot nor replicates its owner

import (
	"encoding/hex"
	"fmt"
	"strconv"
	"strings"
	"sync"
	"sync/atomic"
	"time"

	"github.com/samaritan-proxy/samaritan/proc/redis"
)

func runC14e2e(line string, triggered bool) string {
	loadFactor = measureLoad()
	hd := strings.SplitN(line, " # ", 2)
	f := strings.Fields(hd[0])
	strategy, _ := strconv.Atoi(f[0])
	n, _ := strconv.Atoi(f[1])
	cl := newSimCluster(n)
	defer cl.close()
	var layout [][3]int
	for _, r := range strings.Split(f[2], ",") {
		var lo, hi, nd int
		fmt.Sscanf(r, "%d-%d=%d", &lo, &hi, &nd)
		layout = append(layout, [3]int{lo, hi, nd})
	}
	cl.setLayout(layout)
	var seeds []string
	for _, nd := range cl.nodes {
		seeds = append(seeds, nd.addr)
	}
	// the replicas named before the first w are there when the proxy starts
	ops := strings.Fields(hd[1])
	for len(ops) > 0 && ops[0][0] == 'a' {
		if m, _ := strconv.Atoi(ops[0][2:]); m < n {
			cl.mu.Lock()
			cl.addNode(m)
			cl.mu.Unlock()
		}
		ops = ops[1:]
	}
	// a periodic refresh every 40 ms: the table follows the layout without any redirection (mode c14e2et: none, the
	// table follows redirections only)
	if triggered {
		simTimersOnce.Do(func() { redis.VerifSetSlotsRefresh(time.Hour, 10*time.Millisecond) })
	} else {
		simTimersOnce.Do(func() { redis.VerifSetSlotsRefresh(40*time.Millisecond, 10*time.Millisecond) })
	}
	sp := startRedisProxy(seeds, int32(strategy))
	defer stopProxy(sp)
	if !sp.waitSlotsLoaded(1) {
		return "SLOTS-NOT-LOADED"
	}
	sc := dialProxy(sp.addr)
	defer sc.close()
	var outs []string
	for _, op := range ops {
		switch op[0] {
		case 'a':
			m, _ := strconv.Atoi(op[2:])
			cl.mu.Lock() // listen() takes no lock; the nodes list is read under it
			if m < len(cl.nodes) && cl.nodes[m].master < 0 {
				cl.addNode(m)
			}
			cl.mu.Unlock()
		case 'm':
			var r, m int
			fmt.Sscanf(op[2:], "%d,%d", &r, &m)
			cl.mu.Lock()
			if r < len(cl.nodes) && m < len(cl.nodes) && cl.nodes[r].master >= 0 && cl.nodes[m].master < 0 {
				cl.nodes[r].master = m
				cl.nodes[r].store = cl.nodes[m].store
			}
			cl.mu.Unlock()
		case 'w':
			if triggered {
				break
			}
			before := sp.counter("upstream.slots_refresh.success_total")
			waitFor(3*time.Second, func() bool { return sp.counter("upstream.slots_refresh.success_total") >= before+2 })
		case 'd', 'u':
			m, _ := strconv.Atoi(op[1:])
			if m < n {
				if op[0] == 'd' && cl.nodes[m].up {
					cl.nodes[m].stop()
				}
				if op[0] == 'u' && !cl.nodes[m].up {
					cl.nodes[m].start()
				}
				settle(40 * time.Millisecond)
			}
		case 'k':
			m, _ := strconv.Atoi(op[1:])
			cl.mu.Lock()
			ok := m < len(cl.nodes)
			cl.mu.Unlock()
			if ok {
				cl.nodes[m].killConns()
				settle(60 * time.Millisecond)
			}
		case 'L':
			outs = append(outs, c14Load(cl, sp))
		case 'g', 's':
			key, _ := hex.DecodeString(op[1:])
			v := bulkArr([]byte("get"), key)
			if op[0] == 's' {
				v = bulkArr([]byte("set"), key, []byte("v"))
			}
			cl.mu.Lock()
			for _, nd := range cl.nodes {
				nd.log = nil
			}
			mv0 := cl.moved
			cl.mu.Unlock()
			refreshed0 := sp.counter("upstream.slots_refresh.success_total")
			sc.send(v.bytes(), nil)
			r, err := sc.recvPatient(4 * time.Second)
			if triggered {
				cl.mu.Lock()
				redirected := cl.moved > mv0
				cl.mu.Unlock()
				if redirected {
					waitFor(2*time.Second, func() bool { return sp.counter("upstream.slots_refresh.success_total") > refreshed0 })
					settle(20 * time.Millisecond)
				}
			}
			// "backend exited" is the answer while a lost connection has not yet removed itself from the table (a matter
			// of scheduling): give it more time and ask again - a proxy that never reconnects keeps answering it
			for try := 0; try < 5 && err == nil && r.t == '-' && strings.Contains(string(r.s), "backend exited"); try++ {
				settle(60 * time.Millisecond)
				cl.mu.Lock()
				for _, nd := range cl.nodes {
					nd.log = nil
				}
				cl.mu.Unlock()
				sc.send(v.bytes(), nil)
				r, err = sc.recvPatient(4 * time.Second)
			}
			if err != nil {
				outs = append(outs, "TIMEOUT")
				continue
			}
			cl.mu.Lock()
			first, firstSeq := -1, 0
			for _, nd := range cl.nodes {
				for _, e := range nd.log {
					if (e.result == "exec" || e.result == "moved" || e.result == "ask") && (first < 0 || e.seq < firstSeq) {
						first, firstSeq = nd.idx, e.seq
					}
				}
			}
			tag := "none"
			if first >= 0 {
				own := cl.owner[simSlot(key)]
				switch {
				case first == own:
					tag = "M"
				case cl.nodes[first].master == own:
					tag = "R"
				default:
					tag = "X" + strconv.Itoa(first)
				}
			}
			cl.mu.Unlock()
			outs = append(outs, r.String()+"@"+tag)
		}
	}
	return strings.Join(outs, " ")
}

// c14Load: four connections write fresh keys at the same time; every command's first hop must be its slot's owner
func c14Load(cl *simCluster, sp *simProxy) string {
	cl.mu.Lock()
	for _, nd := range cl.nodes {
		nd.log = nil
	}
	cl.mu.Unlock()
	c14LoadSeq++
	// the table is refreshed every couple of milliseconds while the load runs
	of, om := redis.VerifSetSlotsRefresh(2*time.Millisecond, time.Millisecond)
	defer redis.VerifSetSlotsRefresh(of, om)
	time.Sleep(60 * time.Millisecond) // the refresh loop picks the new timers up at its next turn (40 ms at most)
	var wg sync.WaitGroup
	bad := int32(0)
	for w := 0; w < 4; w++ {
		wg.Add(1)
		go func(w int) {
			defer wg.Done()
			c := dialProxy(sp.addr)
			defer c.close()
			for i := 0; i < 300; i++ {
				k := []byte(fmt.Sprintf("load%d_%d_%d", c14LoadSeq, w, i))
				c.send(bulkArr([]byte("set"), k, []byte("v")).bytes(), nil)
				if r, err := c.recvPatient(4 * time.Second); err != nil || r.t == '-' {
					atomic.AddInt32(&bad, 1)
				}
			}
		}(w)
	}
	wg.Wait()
	cl.mu.Lock()
	defer cl.mu.Unlock()
	type hop struct{ node, seq int }
	first := map[string]hop{}
	for _, nd := range cl.nodes {
		for _, e := range nd.log {
			if e.result == "exec" || e.result == "moved" || e.result == "ask" {
				if h, ok := first[e.cmd]; !ok || e.seq < h.seq {
					first[e.cmd] = hop{nd.idx, e.seq}
				}
			}
		}
	}
	wrong := 0
	for w := 0; w < 4; w++ {
		for i := 0; i < 300; i++ {
			k := []byte(fmt.Sprintf("load%d_%d_%d", c14LoadSeq, w, i))
			h, ok := first[bulkArr([]byte("set"), k, []byte("v")).String()]
			if !ok || h.node != cl.owner[simSlot(k)] {
				wrong++
			}
		}
	}
	if wrong == 0 && bad == 0 {
		return "load:ok"
	}
	return fmt.Sprintf("load:%d-not-sent-to-the-owner-first,%d-errors", wrong, bad)
}

var c14LoadSeq int

func init() {
	register("c14e2et", func() { c14e2eMain(true) })
	register("c14e2e", func() { c14e2eMain(false) })
}

func c14e2eMain(triggered bool) {
	{
		cases, impl := create("cases.txt"), create("impl.txt")
		hist := map[string]int{}
		runLine := func(line string) {
			fmt.Fprintln(cases, line)
			fmt.Fprintln(impl, runC14e2e(line, triggered))
		}
		if *fIn != "" {
			for _, l := range readLines(*fIn) {
				runLine(l)
			}
			writeHist(hist)
			return
		}
		r := newRng(*fSeed)
		for i := 0; i < *fN && !expired(); i++ {
			n := 2 + r.intn(2)
			strategy := r.intn(3)
			var keys []string
			for j := 0; j < 6; j++ {
				keys = append(keys, hex.EncodeToString([]byte("k"+strconv.Itoa(r.intn(60)))))
			}
			var ops []string
			nodes := n
			var replicas []int
			var repOf []int // master of the i-th replica added
			layoutText := c03Layout(r, n)
			var ranges [][3]int
			for _, x := range strings.Split(layoutText, ",") {
				var lo, hi, nd int
				fmt.Sscanf(x, "%d-%d=%d", &lo, &hi, &nd)
				ranges = append(ranges, [3]int{lo, hi, nd})
			}
			reqs := func() {
				ops = append(ops, "w")
				for j, nj := 0, 2+r.intn(6); j < nj; j++ {
					ops = append(ops, string("gggs"[r.intn(4)])+keys[r.intn(len(keys))])
				}
			}
			// some replicas to begin with
			for j, nj := 0, r.intn(3); j < nj; j++ {
				m := r.intn(n)
				ops = append(ops, fmt.Sprintf("ar%d", m))
				replicas = append(replicas, nodes)
				repOf = append(repOf, m)
				nodes++
			}
			reqs()
			for j, nj := 0, 1+r.intn(4); j < nj; j++ {
				switch {
				case len(replicas) > 0 && r.chance(1, 2):
					ri, m := r.intn(len(replicas)), r.intn(n)
					old := repOf[ri]
					repOf[ri] = m
					ops = append(ops, fmt.Sprintf("mr%d,%d", replicas[ri], m), "w")
					// (w: with a periodic refresh the table is current again; without one w does nothing)
					// reads of the former master's keys: the moved replica still gets some, says MOVED once, and the refresh
					// that redirection triggers must end it
					for y, cnt := 0, 0; y < 60 && cnt < 10; y++ {
						k := []byte("k" + strconv.Itoa(y))
						sl := simSlot(k)
						for _, rg := range ranges {
							if rg[0] <= sl && sl <= rg[1] && rg[2] == old {
								ops = append(ops, "g"+hex.EncodeToString(k))
								cnt++
							}
						}
					}
				case !triggered && r.chance(1, 2):
					// a master is unreachable for a while: its replicas must not be given its writes (nor its reads under
					// the master-only strategy); preferably a master that has a replica, and keys of its slots
					m := r.intn(n)
					for _, rp := range replicas {
						if rp-n < len(repOf) {
							m = repOf[rp-n]
						}
					}
					ops = append(ops, fmt.Sprintf("d%d", m), "w")
					var mine []string
					for x := 0; x < 60 && len(mine) < 4; x++ {
						k := []byte("k" + strconv.Itoa(x))
						sl := simSlot(k)
						for _, rg := range ranges {
							if rg[0] <= sl && sl <= rg[1] && rg[2] == m {
								mine = append(mine, hex.EncodeToString(k))
							}
						}
					}
					for _, k := range mine {
						ops = append(ops, "s"+k, "g"+k)
					}
					reqs()
					ops = append(ops, fmt.Sprintf("u%d", m))
				case r.chance(1, 3) || (triggered && len(replicas) > 0 && r.chance(1, 2)):
					// connections are lost: preferably those of a replica, followed by reads of its master's keys
					x := r.intn(nodes)
					if len(replicas) > 0 && r.chance(2, 3) {
						ri := r.intn(len(replicas))
						x = replicas[ri]
						ops = append(ops, fmt.Sprintf("k%d", x))
						for y := 0; y < 60; y++ {
							k := []byte("k" + strconv.Itoa(y))
							sl := simSlot(k)
							for _, rg := range ranges {
								if rg[0] <= sl && sl <= rg[1] && rg[2] == repOf[ri] && r.chance(1, 3) {
									ops = append(ops, "g"+hex.EncodeToString(k))
								}
							}
						}
					} else {
						ops = append(ops, fmt.Sprintf("k%d", x))
					}
				case !triggered && r.chance(1, 3):
					ops = append(ops, "L")
				default:
					if triggered {
						continue // a replica nobody has told the proxy about is simply not used
					}
					m := r.intn(n)
					ops = append(ops, fmt.Sprintf("ar%d", m))
					replicas = append(replicas, nodes)
					repOf = append(repOf, m)
					nodes++
				}
				reqs()
			}
			hist[fmt.Sprintf("strategy=%d", strategy)]++
			runLine(fmt.Sprintf("%d %d %s # %s", strategy, n, layoutText, strings.Join(ops, " ")))
		}
		writeHist(hist)
	}
}
