package main

import (
	"bytes"
	"encoding/hex"
	"fmt"
	"runtime/debug"
	"sort"
	"strings"
	"time"

	redis "github.com/samaritan-proxy/samaritan/proc/redis"
)

// deepProbe decodes inputs designed to drive recursion depth with the goroutine stack capped, in
// this (child) process: a fatal stack overflow kills the process and is seen by the parent.
func deepProbe(which string) string {
	debug.SetMaxStack(48 << 20)
	var data []byte
	switch which {
	case "nested-arrays":
		data = bytes.Repeat([]byte("*1\r\n"), 3000000)
	case "empty-lines":
		data = bytes.Repeat([]byte("\r\n"), 3000000)
	case "blank-lines":
		data = bytes.Repeat([]byte("   \r\n"), 1500000)
	case "nested-in-bulk-arrays":
		data = bytes.Repeat([]byte("*2\r\n$1\r\na\r\n"), 1500000)
	}
	vs, err := redis.VerifDecodeAll(bytes.NewReader(data), 4096, 1<<30)
	return fmt.Sprintf("%s values=%d err=%s", which, len(vs), errClass(err))
}

func init() {
	register("c11deep", func() {
		// run as: harness c11deep -in <which>   (one probe per process)
		out := create("impl.txt")
		fmt.Fprintln(out, deepProbe(*fIn))
	})

	// ---- what becomes of a request when the backend answers with <reply> ----
	register("c11resp", func() {
		cases, impl := create("cases.txt"), create("impl.txt")
		hist := map[string]int{}
		A, B := "10.7.0.1:7000", "10.7.0.2:7000"
		env := redis.VerifNewEnv([]string{A}, 0, nil)
		env.AddBackend(B)
		var scripted *redis.RespValue
		first := true
		env.SetAnswer(func(addr string, body *redis.RespValue) *redis.RespValue {
			if addr == A && first {
				first = false
				return scripted
			}
			return &redis.RespValue{Type: redis.SimpleString, Text: []byte("OK@" + addr)}
		})
		emit := func(reply *redis.RespValue) {
			fmt.Fprintln(cases, valString(reply))
			scripted, first = reply, true
			got, timedOut := env.Do(arr(bulk("get"), bulk("k")), 700*time.Millisecond)
			out := ""
			switch {
			case len(env.Panics()) > 0:
				out = "PANIC"
			case timedOut:
				out = "NOREPLY"
			case got.Type == redis.Error && strings.HasPrefix(string(got.Text), "dial "):
				out = "DIALERR"
			default:
				out = valString(got)
			}
			var subs []string
			for _, s := range env.Sent() {
				subs = append(subs, s.Addr+"="+strings.ReplaceAll(valString(s.Body), " ", "_"))
			}
			fmt.Fprintln(impl, out+" | "+strings.Join(subs, " "))
			hist["out:"+strings.SplitN(out, " ", 2)[0][:1]]++
		}
		if *fIn != "" {
			for _, l := range readLines(*fIn) {
				p := 0
				emit(parseVal(strings.Split(l, " "), &p))
			}
			writeHist(hist)
			return
		}
		r := newRng(*fSeed)
		words := []string{"MOVED", "moved", "MoVeD", "ASK", "ask", "aSk", "a\xc5\xbfk", "A\xc5\xbfK", "mo\xc5\xbfed", "CLUSTERDOWN", "clusterdown", "CLU\xc5\xbfTERDOWN",
			"\xe2\x84\xaa", "as\xe2\x84\xaa", "ASKING", "MOVE", "MOVEDX", "ERR", "WRONGTYPE", "", " ", "\xc4\xb0"}
		for _, w := range words {
			for _, rest := range []string{"", " ", " 1", " 1 ", " 1 " + B, " 1 " + B + " extra", "  1 " + B, " 1  " + B, " x " + A, " 1 :0", " 1 nohost"} {
				emit(&redis.RespValue{Type: redis.Error, Text: []byte(w + rest)})
			}
		}
		for i := 0; i < *fN; i++ {
			switch r.intn(5) {
			case 0:
				emit(genVal(r, 2, false))
			default:
				t := words[r.intn(len(words))]
				for j, nj := 0, r.intn(4); j < nj; j++ {
					t += " "
					switch r.intn(5) {
					case 0:
						t += B
					case 1:
						t += fmt.Sprint(r.intn(16384))
					case 2:
						t += ""
					case 3:
						t += A
					default:
						t += string(r.bytes(r.intn(4)))
					}
				}
				t = strings.NewReplacer("\r", "?", "\n", "?").Replace(t)
				emit(&redis.RespValue{Type: redis.Error, Text: []byte(t)})
			}
		}
		env.Close()
		writeHist(hist)
	})

	// ---- CLUSTER NODES parsing ----
	register("c11nodes", func() {
		cases, impl := create("cases.txt"), create("impl.txt")
		hist := map[string]int{}
		lenv := redis.VerifNewEnv([]string{"10.6.0.1:7000"}, 0, nil)
		defer lenv.Close()
		var nodesText string
		lenv.SetAnswer(func(addr string, body *redis.RespValue) *redis.RespValue {
			return &redis.RespValue{Type: redis.BulkString, Text: []byte(nodesText)}
		})
		hangs := 0
		emit := func(text string) {
			if hangs >= 3 {
				return // three parses are still spinning: enough
			}
			fmt.Fprintln(cases, hex.EncodeToString([]byte(text)))
			parse := func() (s string) {
				defer func() {
					if r := recover(); r != nil {
						s = "PANIC"
					}
				}()
				insts, err := redis.VerifParseClusterNodes(text)
				if err != nil {
					return "ERR"
				}
				var ms []string
				for _, m := range insts {
					sort.Strings(m.Replicas)
					sum, lo, hi := 0, -1, -1
					for _, x := range m.Slots {
						sum = (sum*31 + x + 7) % 1000003
						if lo == -1 || x < lo {
							lo = x
						}
						if x > hi {
							hi = x
						}
					}
					ms = append(ms, fmt.Sprintf("%s@%s#%d:%d:%d:%d[%s]", hex.EncodeToString([]byte(m.ID)), hex.EncodeToString([]byte(m.Addr)), len(m.Slots), lo, hi, sum, strings.Join(m.Replicas, ",")))
				}
				sort.Strings(ms)
				return strings.TrimSpace("OK " + strings.Join(ms, " "))
			}
			// a parse that does not come back (a node text cannot wedge the proxy) is given up after five seconds
			outc := make(chan string, 1)
			go func() { outc <- parse() }()
			var out string
			select {
			case out = <-outc:
			case <-time.After(5 * time.Second):
				hangs++
				hist["out:HANG"]++
				fmt.Fprintln(impl, "HANG load:skipped")
				return
			}
			// the same text through the real doSlotsRefresh (table update included)
			nodesText = text
			load := "load:ok"
			if err := lenv.LoadSlots(); err != nil {
				load = "load:err"
			}
			if len(lenv.Panics()) > 0 {
				load = "load:PANIC"
			}
			lenv.Sent()
			hist["out:"+out[:2]]++
			fmt.Fprintln(impl, out+" "+load)
		}
		if *fIn != "" {
			for _, l := range readLines(*fIn) {
				b, _ := hex.DecodeString(l)
				emit(string(b))
			}
			writeHist(hist)
			return
		}
		r := newRng(*fSeed)
		fixed := []string{
			"", "\n", "a b c\n", "id1 h:1 master - 0 0 1 connected\n", "id1 h:1 master - 0 0 1 connected 0-5\n",
			"id1 h:1@2 master - 0 0 1 connected 0-16383\nid2 h:2 slave id1 0 0 1 connected\n",
			"id2 h:2 slave id9 0 0 1 connected\n", "id2 h:2 slave id2 0 0 1 connected\n",
			"id1 h:1 master - 0 0 1 connected 0-4611686018427387904\n", "id1 h:1 master - 0 0 1 connected 16380-16384\n",
			"id1 h:1 master - 0 0 1 connected -1-5\n", "id1 h:1 master - 0 0 1 connected 5-1\n", "id1 h:1 master - 0 0 1 connected 99999\n",
			"id1 h:1 master - 0 0 1 connected [5->-id2] 7\n", "id1 h1 master - 0 0 1 connected 1\n", "id1 h:1:2 master - 0 0 1 connected 1\n",
			"id1 h:1 master - 0 0 1 connected 1-2-3\n", "id1 h:1 master - 0 0 1 connected x\n", "id1 h:1 master - 0 0 1 connected +3\n",
			"id1 h:1 master - 0 0 1 connected 3\nid1 h:9 master - 0 0 1 connected 4\n",
			"id3 h:3 slave id2 0 0 1 connected\nid2 h:2 slave id1 0 0 1 connected\nid1 h:1 master - 0 0 1 connected 1\n",
		}
		for _, f := range fixed {
			if strings.Contains(f, "slave id2 0 0 1 connected\nid2 h:2 slave") {
				continue // replica of a replica: depends on Go's map order
			}
			emit(f)
		}
		for i := 0; i < *fN; i++ {
			l := genLayout(r)
			text := l.text()
			lines := strings.Split(text, "\n")
			for m, nm := 0, r.intn(3); m < nm; m++ {
				li := r.intn(len(lines))
				toks := strings.Fields(lines[li])
				if len(toks) == 0 {
					continue
				}
				ti := r.intn(len(toks))
				switch r.intn(9) {
				case 0:
					toks = append(toks[:ti], toks[ti+1:]...)
				case 1:
					toks[ti] = []string{"-", "x", "", "5-", "-5", "1-2-3", "16383-16384", "0-99999999999", "[1-<-a]", "h:1", "h", "1:2:3", "+7", "007"}[r.intn(14)]
				case 2:
					toks = append(toks, []string{"16384", "-1", "5-3", "0-16383", "99999999999999999999", "7-7"}[r.intn(6)])
				case 3:
					if len(toks) > 3 {
						toks[3] = fmt.Sprintf("%040x", 1+r.intn(4)) // another master id (maybe unknown, never a replica id)
					}
				case 4:
					lines = append(lines, lines[li])
				case 5:
					toks = toks[:r.intn(len(toks)+1)]
				case 6:
					lines[li] = strings.Join(toks, "\t ")
					continue
				default:
				}
				lines[li] = strings.Join(toks, " ")
			}
			emit(strings.Join(lines, "\n"))
		}
		writeHist(hist)
	})
}
