package main

import (
	"fmt"
	"sort"
	"strconv"
	"strings"
	"sync"
	"time"

	"github.com/samaritan-proxy/samaritan/config"
	"github.com/samaritan-proxy/samaritan/controller"
	"github.com/samaritan-proxy/samaritan/host"
	"github.com/samaritan-proxy/samaritan/pb/common"
	"github.com/samaritan-proxy/samaritan/pb/config/bootstrap"
	"github.com/samaritan-proxy/samaritan/pb/config/hc"
	"github.com/samaritan-proxy/samaritan/pb/config/protocol"
	"github.com/samaritan-proxy/samaritan/pb/config/service"
	"github.com/samaritan-proxy/samaritan/proc"
	"github.com/samaritan-proxy/samaritan/utils"
)

// a processor that only records what the controller does to it
type recProc struct {
	mu    sync.Mutex
	name  string
	cfg   *service.Config
	hosts map[string]host.Type
}

func (p *recProc) Name() string            { return p.name }
func (p *recProc) Address() string         { return "" }
func (p *recProc) Config() *service.Config { p.mu.Lock(); defer p.mu.Unlock(); return p.cfg }
func (p *recProc) OnSvcHostAdd(hs []*host.Host) error {
	p.mu.Lock()
	for _, h := range hs {
		p.hosts[h.Addr] = h.Type
	}
	p.mu.Unlock()
	return nil
}
func (p *recProc) OnSvcHostRemove(hs []*host.Host) error {
	p.mu.Lock()
	for _, h := range hs {
		delete(p.hosts, h.Addr)
	}
	p.mu.Unlock()
	return nil
}
func (p *recProc) OnSvcAllHostReplace(hs []*host.Host) error {
	p.mu.Lock()
	p.hosts = map[string]host.Type{}
	for _, h := range hs {
		p.hosts[h.Addr] = h.Type
	}
	p.mu.Unlock()
	return nil
}
func (p *recProc) OnSvcConfigUpdate(c *service.Config) error {
	if err := c.Validate(); err != nil {
		return err
	}
	p.mu.Lock()
	p.cfg = c
	p.mu.Unlock()
	return nil
}
func (p *recProc) Start() error      { return nil }
func (p *recProc) StopListen() error { return nil }
func (p *recProc) Stop() error       { return nil }

type recBuilder struct{}

func (recBuilder) Build(params proc.BuildParams) (proc.Proc, error) {
	p := &recProc{name: params.Name, cfg: params.Cfg, hosts: map[string]host.Type{}}
	p.OnSvcHostAdd(params.Hosts)
	recTable.Store(params.Name, p)
	return p, nil
}

// configuration number id: the listener port carries the id; an invalid one has no listener
func c08Cfg(id int, valid bool) *service.Config {
	c := &service.Config{
		HealthCheck: &hc.HealthCheck{
			Interval: 10 * time.Second, Timeout: 3 * time.Second, FallThreshold: 3, RiseThreshold: 3,
			Checker: &hc.HealthCheck_TcpChecker{TcpChecker: &hc.TCPChecker{}},
		},
		Listener:        &service.Listener{Address: &common.Address{Ip: "0.0.0.0", Port: uint32(20000 + id)}},
		ConnectTimeout:  utils.DurationPtr(3 * time.Second),
		IdleTimeout:     utils.DurationPtr(10 * time.Minute),
		LbPolicy:        service.LoadBalancePolicy_ROUND_ROBIN,
		Protocol:        protocol.TCP,
		ProtocolOptions: &service.Config_TcpOption{TcpOption: &protocol.TCPOption{}},
	}
	if !valid {
		c.Listener = &service.Listener{Address: &common.Address{Ip: "not-an-ip", Port: uint32(20000 + id)}}
	}
	return c
}

func c08Ep(tok string) *service.Endpoint { // "<addr>" main or "<addr>b" backup
	b := strings.HasSuffix(tok, "b")
	a, _ := strconv.Atoi(strings.TrimSuffix(tok, "b"))
	e := &service.Endpoint{Address: &common.Address{Ip: fmt.Sprintf("10.4.0.%d", a), Port: 80}}
	if b {
		e.Type = service.Endpoint_BACKUP
	}
	return e
}

func c08Eps(s string) []*service.Endpoint {
	var out []*service.Endpoint
	for _, t := range strings.Split(s, ",") {
		if t != "" {
			out = append(out, c08Ep(t))
		}
	}
	return out
}

func init() {
	register("c08", func() {
		proc.RegisterBuilder(protocol.TCP, recBuilder{})
		cases, impl := create("cases.txt"), create("impl.txt")
		hist := map[string]int{}
		// ops: S<n>:<cid><v|i>:<eps>  static service; D<+names>/<-names>; C<n>:<cid><v|i>; E<n>:<added>/<removed>
		runCase := func(ops []string, lag int) {
			valid := c08Cfg(0, true).Validate() == nil && c08Cfg(0, false).Validate() != nil
			if !valid {
				die("c08: config validity oracle is off")
			}
			b := &bootstrap.Bootstrap{Admin: &bootstrap.Admin{Bind: &common.Address{Ip: "127.0.0.1", Port: 8888}}}
			var dyn []string
			for _, op := range ops {
				if op[0] == 'S' {
					f := strings.Split(op[1:], ":")
					id, _ := strconv.Atoi(f[1][:len(f[1])-1])
					b.StaticServices = append(b.StaticServices, &bootstrap.StaticService{
						Name: "svc" + f[0], Config: c08Cfg(id, f[1][len(f[1])-1] == 'v'), Endpoints: append([]*service.Endpoint{}, c08Eps(f[2])...)})
				} else {
					dyn = append(dyn, op)
				}
			}
			cfg, err := config.New(b)
			if err != nil {
				die("config.New: %v", err)
			}
			ctl, _ := controller.New(cfg.Subscribe())
			started := false
			start := func() {
				if !started {
					started = true
					ctl.Start()
				}
			}
			if lag == 0 {
				start()
			}
			for i, op := range dyn {
				if i == lag || cfg.VerifPending() > 24 {
					start()
				}
				f := strings.Split(op[1:], ":")
				switch op[0] {
				case 'D':
					pr := strings.Split(op[1:], "/")
					var add, rem []*service.Service
					for _, n := range strings.Split(pr[0], ",") {
						if n != "" {
							add = append(add, &service.Service{Name: "svc" + n})
						}
					}
					for _, n := range strings.Split(pr[1], ",") {
						if n != "" {
							rem = append(rem, &service.Service{Name: "svc" + n})
						}
					}
					cfg.VerifDependencyUpdate(add, rem)
				case 'C':
					id, _ := strconv.Atoi(f[1][:len(f[1])-1])
					cfg.VerifSvcConfigUpdate("svc"+f[0], c08Cfg(id, f[1][len(f[1])-1] == 'v'))
				case 'E':
					pr := strings.Split(f[1], "/")
					cfg.VerifSvcEndpointUpdate("svc"+f[0], c08Eps(pr[0]), c08Eps(pr[1]))
				}
			}
			start()
			// the controller handles events one at a time, in order: when the processor of a sentinel service announced
			// last exists, every earlier event has been handled
			cfg.VerifDependencyUpdate([]*service.Service{{Name: "svc999"}}, nil)
			cfg.VerifSvcConfigUpdate("svc999", c08Cfg(999, true))
			cfg.VerifSvcEndpointUpdate("svc999", c08Eps("1"), nil)
			waitFor(5*time.Second, func() bool {
				for _, p := range ctl.GetAllProcs() {
					if p.Name() == "svc999" {
						return true
					}
				}
				return false
			})
			var out []string
			for _, p := range ctl.GetAllProcs() {
				if p.Name() == "svc999" {
					continue
				}
				c := p.Config()
				id := int(c.Listener.Address.Port) - 20000
				var hs []string
				// unwrap the controller's wrapper through the recording builder's registry
				for addr, typ := range recProcs(p) {
					a := strings.TrimSuffix(strings.TrimPrefix(addr, "10.4.0."), ":80")
					if typ == host.TypeBackup {
						a += "b"
					}
					hs = append(hs, a)
				}
				sort.Strings(hs)
				out = append(out, fmt.Sprintf("%s=%d[%s]", strings.TrimPrefix(p.Name(), "svc"), id, strings.Join(hs, ",")))
			}
			sort.Strings(out)
			ctl.Stop()
			fmt.Fprintf(cases, "%s\n", strings.Join(ops, " "))
			fmt.Fprintln(impl, strings.Join(out, " "))
		}
		if *fIn != "" {
			for _, l := range readLines(*fIn) {
				runCase(strings.Split(l, " "), 3)
			}
			writeHist(hist)
			return
		}
		// the historical witnesses
		runCase([]string{"D1/", "C1:1v", "E1:1,2/", "E1:2b/2"}, 0)                                         // an address in both lists of one update
		runCase([]string{"D1/", "C1:1v", "E1:/9", "E1:1/"}, 0)                                             // removal-only update before any addition
		runCase([]string{"D1/", "E1:1,2,3/", "C1:1v", "E1:/2"}, 4)                                         // store ahead of the controller
		runCase([]string{"D1/", "E1:7/", "C1:1i", "C1:2v"}, 0)                                             // an invalid configuration later corrected (known finding)
		runCase([]string{"D1/", "C1:1v", "E1:/", "E1:/3", "E1:4/"}, 0)                                     // an update that changes nothing, then the first real one
		runCase([]string{"D1,2/", "C1:1v", "E1:1/", "D/1", "C1:2v", "E1:5/", "C2:3v", "E2:6b/", "D1/"}, 2) // updates for a removed service
		runCase([]string{"D1/", "C1:1v", "E1:1/", "C1:2v", "D/1", "D1/", "C1:1v", "E1:1/", "C1:2v"}, 0)   // a service removed and announced again, its configuration rolled back and forward again
		r := newRng(*fSeed)
		eps := func(max int) string {
			var xs []string
			for k, nk := 0, r.intn(max+1); k < nk; k++ {
				x := strconv.Itoa(1 + r.intn(5))
				if r.chance(1, 4) {
					x += "b"
				}
				xs = append(xs, x)
			}
			return strings.Join(xs, ",")
		}
		for i := 0; i < *fN; i++ {
			var ops []string
			for s, ns := 0, r.intn(3); s < ns; s++ {
				se := strconv.Itoa(1 + r.intn(5))
				if r.chance(1, 2) {
					se += "," + strconv.Itoa(6+r.intn(2)) + "b"
				}
				ops = append(ops, fmt.Sprintf("S%d:%dv:%s", 7+s, 50+s, se))
			}
			cid := 1
			for j, nj := 0, 1+r.intn(25); j < nj; j++ {
				n := 1 + r.intn(3)
				switch r.intn(10) {
				case 0, 1:
					var add, rem []string
					for k, nk := 0, r.intn(3); k < nk; k++ {
						add = append(add, strconv.Itoa(1+r.intn(3)))
					}
					if r.chance(1, 3) {
						rem = append(rem, strconv.Itoa(1+r.intn(3)))
					}
					ops = append(ops, "D"+strings.Join(add, ",")+"/"+strings.Join(rem, ","))
				case 2, 3:
					cid++
					if cid > 3 && r.chance(1, 3) {
						// back to an earlier version (a rollback): configurations are values, the same one may come again
						ops = append(ops, fmt.Sprintf("C%d:%dv", n, 2+r.intn(cid-2)))
						continue
					}
					v := "v"
					if *fTier == "thorough" && r.chance(1, 8) {
						v = "i"
					}
					ops = append(ops, fmt.Sprintf("C%d:%d%s", n, cid, v))
				default:
					ops = append(ops, fmt.Sprintf("E%d:%s/%s", n, eps(3), eps(2)))
				}
			}
			hist[fmt.Sprintf("ops<=%d", bucket(len(ops)))]++
			runCase(ops, r.intn(12))
		}
		writeHist(hist)
	})
}

// the controller wraps processors; the recording processor is reachable through its methods only, so the
// hosts are read back through a side table keyed by name
var recTable sync.Map

func recProcs(p proc.Proc) map[string]host.Type {
	v, ok := recTable.Load(p.Name())
	if !ok {
		return nil
	}
	rp := v.(*recProc)
	rp.mu.Lock()
	defer rp.mu.Unlock()
	out := map[string]host.Type{}
	for k, t := range rp.hosts {
		out[k] = t
	}
	return out
}
