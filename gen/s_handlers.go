package main

import (
	"go/ast"
	"go/token"
)

// string literals of `for _, x := range []string{...} { <target>[x] = struct{}{} }` in init()
func rangeLiteralInto(rel, target string) []string {
	f := file(rel)
	var out []string
	found := false
	for _, d := range f.Decls {
		fd, ok := d.(*ast.FuncDecl)
		if !ok || fd.Name.Name != "init" {
			continue
		}
		ast.Inspect(fd.Body, func(n ast.Node) bool {
			rs, ok := n.(*ast.RangeStmt)
			if !ok {
				return true
			}
			cl, ok := rs.X.(*ast.CompositeLit)
			if !ok {
				return true
			}
			hit := false
			ast.Inspect(rs.Body, func(m ast.Node) bool {
				if as, ok := m.(*ast.AssignStmt); ok && len(as.Lhs) == 1 {
					if ix, ok := as.Lhs[0].(*ast.IndexExpr); ok && src(ix.X) == target {
						hit = true
					}
				}
				return true
			})
			if hit {
				if found {
					die("%s: %s filled twice", rel, target)
				}
				found = true
				for _, e := range cl.Elts {
					out = append(out, strLit(e))
				}
			}
			return true
		})
	}
	if !found {
		die("%s: initialiser of %s not found", rel, target)
	}
	return out
}

func init() {
	register("C14/C03/C13: proc/redis/handler.go, redis.go, filter_compress.go, filter_hotkey.go", func() {
		simple := strArray("proc/redis/handler.go", "simpleCommands")
		sum := strArray("proc/redis/handler.go", "sumResultCommands")
		defStrList("simple_commands", simple)
		defStrList("sum_result_commands", sum)
		defStrList("read_only_commands", rangeLiteralInto("proc/redis/handler.go", "readOnlyCommands"))
		// initCommandHandlers: the handler table in registration order (later entries win)
		fd := funcDecl("proc/redis/redis.go", "redisProc", "initCommandHandlers")
		var names, funcs []string
		for _, st := range fd.Body.List {
			switch s := st.(type) {
			case *ast.RangeStmt:
				var list []string
				switch src(s.X) {
				case "simpleCommands":
					list = simple
				case "sumResultCommands":
					list = sum
				default:
					die("initCommandHandlers: range over %s", src(s.X))
				}
				if len(s.Body.List) != 1 {
					die("initCommandHandlers: unexpected loop body")
				}
				c, ok := s.Body.List[0].(*ast.ExprStmt)
				if !ok {
					die("initCommandHandlers: unexpected loop body")
				}
				call := c.X.(*ast.CallExpr)
				if src(call.Fun) != "p.addHandler" || len(call.Args) != 3 || src(call.Args[1]) != src(s.Value) {
					die("initCommandHandlers: unexpected loop call %s", src(call))
				}
				for _, n := range list {
					names = append(names, n)
					funcs = append(funcs, src(call.Args[2]))
				}
			case *ast.ExprStmt:
				call, ok := s.X.(*ast.CallExpr)
				if !ok || src(call.Fun) != "p.addHandler" || len(call.Args) != 3 {
					die("initCommandHandlers: unexpected statement %s", src(s))
				}
				names = append(names, strLit(call.Args[1]))
				funcs = append(funcs, src(call.Args[2]))
			case *ast.AssignStmt:
				// scope := ...
			default:
				die("initCommandHandlers: unexpected statement")
			}
		}
		defStrList("handler_names", names)
		defStrList("handler_funcs", funcs)
		// compression filter
		rel := "proc/redis/filter_compress.go"
		defStrList("banned_cmds_in_cps", rangeLiteralInto(rel, "bannedCmdsInCps"))
		defStrList("wk_skip_check_cmds", rangeLiteralInto(rel, "wkSkipCheckCmdsInDecps"))
		defStr("cps_magic", strLit(valueOf(rel, "cpsMagicNumber")))
		cf := funcDecl(rel, "compressFilter", "Compress")
		var ccmds []string
		var coffs []int64
		ast.Inspect(cf.Body, func(n ast.Node) bool {
			sw, ok := n.(*ast.SwitchStmt)
			if !ok || sw.Tag == nil || src(sw.Tag) != "command" {
				return true
			}
			for _, st := range sw.Body.List {
				cc := st.(*ast.CaseClause)
				if cc.List == nil {
					continue
				}
				if len(cc.Body) != 1 {
					die("Compress: unexpected case body")
				}
				as, ok := cc.Body[0].(*ast.AssignStmt)
				if !ok || src(as.Lhs[0]) != "offset" || as.Tok != token.ASSIGN {
					die("Compress: unexpected case body")
				}
				for _, e := range cc.List {
					ccmds = append(ccmds, strLit(e))
					coffs = append(coffs, evalInt(rel, as.Rhs[0]))
				}
			}
			return false
		})
		if len(ccmds) == 0 {
			die("Compress: switch not found")
		}
		defStrList("cps_commands", ccmds)
		defNList("cps_offsets", coffs)
		// hot key filter: commands whose first argument is not counted as a key
		hk := funcDecl("proc/redis/filter_hotkey.go", "hotKeyFilter", "extractKey")
		var hskip []string
		ast.Inspect(hk.Body, func(n ast.Node) bool {
			if cc, ok := n.(*ast.CaseClause); ok && cc.List != nil {
				for _, e := range cc.List {
					hskip = append(hskip, strLit(e))
				}
			}
			return true
		})
		defStrList("hotkey_skip_cmds", hskip)
		// locally generated error texts that embed request bytes
		defStr("invalid_request_text", strLit(valueOf("proc/redis/resp.go", "invalidRequest")))
		defStr("invalid_cursor_text", strLit(valueOf("proc/redis/handler.go", "invalidCursor")))
	})
}
