package main

// trans: a translator for a small fragment of Go into Gallina, used for the pure functions the slot routing and the
// SCAN cursor are made of (proc/redis/util.go crc16, hashtag; proc/redis/request.go parseCursor, genCursor). The
// functions are type-checked in isolation (go/types, no imports) and printed as Gallina definitions over N (numbers,
// bytes) and list N (byte slices) into coq/Gen/Funcs.v on every run; Proofs/GenFuncsProofs.v proves that they equal
// the hand-written models the property theorems are stated about, so a change of the Go code changes the definition
// and the proof obligation is re-checked against what the code says now.
//
// The fragment (anything else makes the translator fail closed, which bin/check reports as a broken tie):
//   types       uint8/byte, uint16, uint32, uint64, int, bool, []byte, fixed arrays of unsigned integers (package level)
//   expressions literals, variables, + << * (wrapped to the width of fixed-width unsigned types; int is unbounded:
//               slice indexes cannot overflow it), >> & | ^, comparisons, && || !, len(x), x[i], x[i:j], conversions
//               between unsigned integer types
//   statements  assignments and declarations of local variables, `if c { return e }`, return (also of named results),
//               and two loop shapes:  for i = a; i < n; i++ { if c { break } }            (search)
//                                     for i := a; i < n; i++ { x = e; ... }               (accumulation)
// Not modelled: run-time panics (index out of range, slice bounds) - the generated functions use total accessors;
// crashes are C11's business.

import (
	"bytes"
	"fmt"
	"go/ast"
	"go/parser"
	"go/printer"
	"go/token"
	"go/types"
	"os"
	"strings"
)

type transFunc struct {
	rel  string // file
	name string // function or method name
	coq  string // name of the Gallina definition
}

var transFuncs = []transFunc{
	{"proc/redis/util.go", "crc16", "crc16_go"},
	{"proc/redis/util.go", "hashtag", "hashtag_go"},
	{"proc/redis/request.go", "parseCursor", "parseCursor_go"},
	{"proc/redis/request.go", "genCursor", "genCursor_go"},
}

type translator struct {
	info  *types.Info
	fset  *token.FileSet
	fn    string
	named []string // named results
}

func tdie(t *translator, n ast.Node, format string, a ...interface{}) {
	var b bytes.Buffer
	if n != nil {
		printer.Fprint(&b, t.fset, n)
	}
	die("translator: %s: %s: `%s`", t.fn, fmt.Sprintf(format, a...), b.String())
}

func findFunc(rel, name string) *ast.FuncDecl {
	for _, d := range file(rel).Decls {
		if fd, ok := d.(*ast.FuncDecl); ok && fd.Name.Name == name {
			return fd
		}
	}
	die("translator: %s: func %s not found", rel, name)
	return nil
}

func width(t types.Type) int { // 0: unbounded / not an unsigned fixed-width integer
	b, ok := t.Underlying().(*types.Basic)
	if !ok {
		return 0
	}
	switch b.Kind() {
	case types.Uint8:
		return 8
	case types.Uint16:
		return 16
	case types.Uint32:
		return 32
	case types.Uint64:
		return 64
	}
	return 0
}

func isInt(t types.Type) bool {
	b, ok := t.Underlying().(*types.Basic)
	return ok && (b.Kind() == types.Int || b.Kind() == types.UntypedInt || b.Kind() == types.UntypedRune)
}

func (t *translator) typeOf(e ast.Expr) types.Type {
	tv, ok := t.info.Types[e]
	if !ok {
		if id, ok := e.(*ast.Ident); ok {
			if o := t.info.ObjectOf(id); o != nil {
				return o.Type()
			}
		}
		tdie(t, e, "no type")
	}
	return tv.Type
}

func (t *translator) wrap(ty types.Type, s string, e ast.Expr) string {
	if w := width(ty); w > 0 {
		return fmt.Sprintf("(wrap %d %s)", w, s)
	}
	if isInt(ty) {
		return s
	}
	tdie(t, e, "arithmetic on type %s", ty)
	return ""
}

func (t *translator) expr(e ast.Expr) string {
	// constants first (typed or untyped)
	if tv, ok := t.info.Types[e]; ok && tv.Value != nil {
		switch tv.Value.Kind().String() {
		case "Int":
			v := tv.Value.ExactString()
			if strings.HasPrefix(v, "-") {
				tdie(t, e, "negative constant")
			}
			return v
		case "Bool":
			return tv.Value.ExactString()
		}
	}
	switch x := e.(type) {
	case *ast.ParenExpr:
		return t.expr(x.X)
	case *ast.Ident:
		switch x.Name {
		case "true", "false":
			return x.Name
		}
		if o := t.info.ObjectOf(x); o != nil && o.Parent() == o.Pkg().Scope() {
			return x.Name // a package-level table: the same name in Gen/Tables.v
		}
		return "v_" + x.Name
	case *ast.BinaryExpr:
		a, b := t.expr(x.X), t.expr(x.Y)
		ty := t.typeOf(e)
		switch x.Op {
		case token.ADD:
			return t.wrap(ty, fmt.Sprintf("(N.add %s %s)", a, b), e)
		case token.MUL:
			return t.wrap(ty, fmt.Sprintf("(N.mul %s %s)", a, b), e)
		case token.SHL:
			return t.wrap(ty, fmt.Sprintf("(N.shiftl %s %s)", a, b), e)
		case token.SHR:
			if width(ty) == 0 {
				tdie(t, e, ">> on a type that is not a fixed-width unsigned integer")
			}
			return fmt.Sprintf("(N.shiftr %s %s)", a, b)
		case token.AND:
			return fmt.Sprintf("(N.land %s %s)", a, b)
		case token.OR:
			return fmt.Sprintf("(N.lor %s %s)", a, b)
		case token.XOR:
			return fmt.Sprintf("(N.lxor %s %s)", a, b)
		case token.EQL:
			return fmt.Sprintf("(N.eqb %s %s)", a, b)
		case token.NEQ:
			return fmt.Sprintf("(negb (N.eqb %s %s))", a, b)
		case token.LSS:
			return fmt.Sprintf("(N.ltb %s %s)", a, b)
		case token.LEQ:
			return fmt.Sprintf("(N.leb %s %s)", a, b)
		case token.GTR:
			return fmt.Sprintf("(N.ltb %s %s)", b, a)
		case token.GEQ:
			return fmt.Sprintf("(N.leb %s %s)", b, a)
		case token.LAND:
			return fmt.Sprintf("(andb %s %s)", a, b)
		case token.LOR:
			return fmt.Sprintf("(orb %s %s)", a, b)
		}
		tdie(t, e, "operator %s", x.Op)
	case *ast.UnaryExpr:
		if x.Op == token.NOT {
			return fmt.Sprintf("(negb %s)", t.expr(x.X))
		}
		tdie(t, e, "unary operator %s", x.Op)
	case *ast.CallExpr:
		if id, ok := x.Fun.(*ast.Ident); ok && id.Name == "len" && len(x.Args) == 1 {
			return fmt.Sprintf("(lenN %s)", t.expr(x.Args[0]))
		}
		// a conversion between unsigned integer types
		if tv, ok := t.info.Types[x.Fun]; ok && tv.IsType() && len(x.Args) == 1 {
			if w := width(tv.Type); w > 0 && (width(t.typeOf(x.Args[0])) > 0) {
				return fmt.Sprintf("(wrap %d %s)", w, t.expr(x.Args[0]))
			}
		}
		tdie(t, e, "call")
	case *ast.IndexExpr:
		return fmt.Sprintf("(idxN %s %s)", t.expr(x.X), t.expr(x.Index))
	case *ast.SliceExpr:
		if x.Slice3 || x.Low == nil || x.High == nil {
			tdie(t, e, "slice expression form")
		}
		return fmt.Sprintf("(sliceN %s %s %s)", t.expr(x.X), t.expr(x.Low), t.expr(x.High))
	}
	tdie(t, e, "expression")
	return ""
}

func lhsName(t *translator, e ast.Expr) string {
	id, ok := e.(*ast.Ident)
	if !ok {
		tdie(t, e, "assignment target")
	}
	return "v_" + id.Name
}

// loop header `for i = a; i < n; i++` or `for i := a; ...`: returns the variable, start, bound
func (t *translator) loopHeader(f *ast.ForStmt) (string, string, string) {
	as, ok := f.Init.(*ast.AssignStmt)
	if !ok || len(as.Lhs) != 1 || len(as.Rhs) != 1 {
		tdie(t, f, "loop initialisation")
	}
	v := lhsName(t, as.Lhs[0])
	cond, ok := f.Cond.(*ast.BinaryExpr)
	if !ok || cond.Op != token.LSS || lhsName(t, cond.X) != v {
		tdie(t, f, "loop condition (want %s < bound)", v)
	}
	inc, ok := f.Post.(*ast.IncDecStmt)
	if !ok || inc.Tok != token.INC || lhsName(t, inc.X) != v {
		tdie(t, f, "loop step (want %s++)", v)
	}
	if !isInt(t.typeOf(as.Lhs[0])) {
		tdie(t, f, "loop variable is not an int")
	}
	return v, t.expr(as.Rhs[0]), t.expr(cond.Y)
}

// stmts translates a statement list into one Gallina expression; rest is what follows when the list falls through.
func (t *translator) stmts(l []ast.Stmt) string {
	if len(l) == 0 {
		tdie(t, nil, "control reaches the end of the function without a return")
	}
	s, rest := l[0], l[1:]
	switch x := s.(type) {
	case *ast.AssignStmt:
		if len(x.Lhs) != len(x.Rhs) {
			tdie(t, s, "assignment shape")
		}
		if x.Tok != token.ASSIGN && x.Tok != token.DEFINE {
			tdie(t, s, "assignment operator")
		}
		out := ""
		// simultaneous assignment: evaluate the right-hand sides first
		var tmp []string
		for i, r := range x.Rhs {
			tmp = append(tmp, fmt.Sprintf("t_%d", i))
			out += fmt.Sprintf("let t_%d := %s in\n  ", i, t.expr(r))
		}
		for i, lh := range x.Lhs {
			out += fmt.Sprintf("let %s := %s in\n  ", lhsName(t, lh), tmp[i])
		}
		return out + t.stmts(rest)
	case *ast.DeclStmt:
		gd, ok := x.Decl.(*ast.GenDecl)
		if !ok || gd.Tok != token.VAR {
			tdie(t, s, "declaration")
		}
		out := ""
		for _, sp := range gd.Specs {
			vs := sp.(*ast.ValueSpec)
			for i, n := range vs.Names {
				val := "0"
				if i < len(vs.Values) {
					val = t.expr(vs.Values[i])
				} else if !(width(t.typeOf(n)) > 0 || isInt(t.typeOf(n))) {
					tdie(t, s, "zero value of this type")
				}
				out += fmt.Sprintf("let v_%s := %s in\n  ", n.Name, val)
			}
		}
		return out + t.stmts(rest)
	case *ast.IfStmt:
		if x.Init != nil || x.Else != nil || len(x.Body.List) != 1 {
			tdie(t, s, "if statement shape (want `if c { return e }`)")
		}
		ret, ok := x.Body.List[0].(*ast.ReturnStmt)
		if !ok {
			tdie(t, s, "if body (want a return)")
		}
		return fmt.Sprintf("if %s then %s\n  else %s", t.expr(x.Cond), t.ret(ret), t.stmts(rest))
	case *ast.ReturnStmt:
		return t.ret(x)
	case *ast.ForStmt:
		v, a, n := t.loopHeader(x)
		// search loop: the body is `if c { break }`
		if len(x.Body.List) == 1 {
			if is, ok := x.Body.List[0].(*ast.IfStmt); ok && is.Init == nil && is.Else == nil && len(is.Body.List) == 1 {
				if br, ok := is.Body.List[0].(*ast.BranchStmt); ok && br.Tok == token.BREAK && br.Label == nil {
					return fmt.Sprintf("let %s := find_from %s %s (fun %s => %s) in\n  %s", v, a, n, v, t.expr(is.Cond), t.stmts(rest))
				}
			}
		}
		// accumulation loop: assignments to variables declared outside, the loop variable declared by the loop
		if as := x.Init.(*ast.AssignStmt); as.Tok != token.DEFINE {
			tdie(t, s, "accumulation loop must declare its variable (i := ...)")
		}
		var accs []string
		body := ""
		for _, bs := range x.Body.List {
			as, ok := bs.(*ast.AssignStmt)
			if !ok || as.Tok != token.ASSIGN || len(as.Lhs) != 1 || len(as.Rhs) != 1 {
				tdie(t, bs, "loop body statement (want x = e)")
			}
			name := lhsName(t, as.Lhs[0])
			if name == v {
				tdie(t, bs, "assignment to the loop variable")
			}
			seen := false
			for _, a := range accs {
				seen = seen || a == name
			}
			if !seen {
				accs = append(accs, name)
			}
			body += fmt.Sprintf("let %s := %s in ", name, t.expr(as.Rhs[0]))
		}
		if len(accs) != 1 {
			tdie(t, s, "accumulation loop over %d variables (one supported)", len(accs))
		}
		return fmt.Sprintf("let %s := for_range %s %s (fun %s %s => %s%s) %s in\n  %s", accs[0], a, n, v, accs[0], body, accs[0], accs[0], t.stmts(rest))
	}
	tdie(t, s, "statement")
	return ""
}

func (t *translator) ret(r *ast.ReturnStmt) string {
	if len(r.Results) == 0 {
		if len(t.named) == 0 {
			tdie(t, r, "naked return without named results")
		}
		if len(t.named) == 1 {
			return "v_" + t.named[0]
		}
		return "(v_" + strings.Join(t.named, ", v_") + ")"
	}
	var es []string
	for _, e := range r.Results {
		es = append(es, t.expr(e))
	}
	if len(es) == 1 {
		return es[0]
	}
	return "(" + strings.Join(es, ", ") + ")"
}

func coqType(t *translator, ty types.Type, n ast.Node) string {
	if width(ty) > 0 || isInt(ty) {
		return "N"
	}
	if s, ok := ty.Underlying().(*types.Slice); ok && width(s.Elem()) == 8 {
		return "list N"
	}
	tdie(t, n, "parameter/result type %s", ty)
	return ""
}

func translateFuncs(outPath string) {
	// the functions in isolation, with the package-level tables they use declared by type only
	var srcb bytes.Buffer
	srcb.WriteString("package p\n\nvar crc16tab [256]uint16\n\ntype scanRequest struct{}\n\n")
	declared := map[string]bool{}
	for _, tf := range transFuncs {
		fd := findFunc(tf.rel, tf.name)
		// package-level constants of the same file the function mentions (and those they mention)
		var need func(n ast.Node)
		need = func(n ast.Node) {
			ast.Inspect(n, func(x ast.Node) bool {
				id, ok := x.(*ast.Ident)
				if !ok || declared[id.Name] {
					return true
				}
				for _, d := range file(tf.rel).Decls {
					gd, ok := d.(*ast.GenDecl)
					if !ok || gd.Tok != token.CONST {
						continue
					}
					for _, sp := range gd.Specs {
						vs := sp.(*ast.ValueSpec)
						for i, nm := range vs.Names {
							if nm.Name == id.Name && i < len(vs.Values) && !declared[id.Name] {
								declared[id.Name] = true
								need(vs.Values[i])
								fmt.Fprintf(&srcb, "const %s = ", nm.Name)
								printer.Fprint(&srcb, fset, vs.Values[i])
								srcb.WriteString("\n\n")
							}
						}
					}
				}
				return true
			})
		}
		need(fd.Body)
		printer.Fprint(&srcb, fset, fd)
		srcb.WriteString("\n\n")
	}
	tfset := token.NewFileSet()
	pf, err := parser.ParseFile(tfset, "funcs.go", srcb.Bytes(), 0)
	if err != nil {
		die("translator: re-parse: %v", err)
	}
	info := &types.Info{Types: map[ast.Expr]types.TypeAndValue{}, Defs: map[*ast.Ident]types.Object{}, Uses: map[*ast.Ident]types.Object{}}
	conf := types.Config{Error: func(err error) { die("translator: type check: %v", err) }}
	if _, err := conf.Check("p", tfset, []*ast.File{pf}, info); err != nil {
		die("translator: type check: %v", err)
	}
	var o bytes.Buffer
	o.WriteString("(* GENERATED by /verif/gen (trans.go) from the Go sources of the repository under test: the functions below are\n   the Go functions named, translated statement by statement. Do not edit: regenerated on every run of bin/check. *)\n")
	o.WriteString("From Coq Require Import List NArith Bool.\nFrom Sam Require Import Gen.Tables Lib.GoLib.\nImport ListNotations.\nOpen Scope N_scope.\n\n")
	for _, tf := range transFuncs {
		var fd *ast.FuncDecl
		for _, d := range pf.Decls {
			if x, ok := d.(*ast.FuncDecl); ok && x.Name.Name == tf.name {
				fd = x
			}
		}
		t := &translator{info: info, fset: tfset, fn: tf.rel + ":" + tf.name}
		var params []string
		for _, f := range fd.Type.Params.List {
			for _, n := range f.Names {
				params = append(params, fmt.Sprintf("(v_%s : %s)", n.Name, coqType(t, info.TypeOf(f.Type), f)))
			}
		}
		var results []string
		pre := ""
		if fd.Type.Results == nil {
			tdie(t, fd, "no result")
		}
		for _, f := range fd.Type.Results.List {
			ct := coqType(t, info.TypeOf(f.Type), f)
			if len(f.Names) == 0 {
				results = append(results, ct)
			}
			for _, n := range f.Names {
				results = append(results, ct)
				t.named = append(t.named, n.Name)
				if ct != "N" {
					tdie(t, f, "named result of this type")
				}
				pre += fmt.Sprintf("let v_%s := 0 in\n  ", n.Name)
			}
		}
		var gs bytes.Buffer
		printer.Fprint(&gs, tfset, fd)
		fmt.Fprintf(&o, "(* %s\n%s\n*)\n", tf.rel, strings.ReplaceAll(strings.ReplaceAll(gs.String(), "*)", "* )"), "(*", "( *"))
		fmt.Fprintf(&o, "Definition %s %s : %s :=\n  %s%s.\n\n", tf.coq, strings.Join(params, " "), strings.Join(results, " * "), pre, t.stmts(fd.Body.List))
	}
	prev, _ := os.ReadFile(outPath)
	if !bytes.Equal(prev, o.Bytes()) {
		if err := os.WriteFile(outPath, o.Bytes(), 0644); err != nil {
			die("%v", err)
		}
	}
}
