package main

import "go/ast"

// sizes passed to newDecoder/newEncoder in a constructor
func codecSizes(rel, fn string) (dec, enc int64) {
	fd := funcDecl(rel, "", fn)
	dec, enc = -1, -1
	ast.Inspect(fd.Body, func(n ast.Node) bool {
		c, ok := n.(*ast.CallExpr)
		if !ok || len(c.Args) != 2 {
			return true
		}
		switch src(c.Fun) {
		case "newDecoder":
			dec = evalInt(rel, c.Args[1])
		case "newEncoder":
			enc = evalInt(rel, c.Args[1])
		}
		return true
	})
	if dec < 0 || enc < 0 {
		die("%s: %s: newDecoder/newEncoder sizes not found", rel, fn)
	}
	return
}

func init() {
	register("C10/C11: proc/redis/codec.go, bufio.go, session.go, upstream.go", func() {
		defZ("max_array_len", constInt("proc/redis/codec.go", "maxArrayLen"))
		defZ("max_bulk_len", constInt("proc/redis/codec.go", "maxBulkStringLen"))
		defN("max_array_depth", constInt("proc/redis/codec.go", "maxArrayDepth"))
		defZ("min_itoa", constInt("proc/redis/codec.go", "minItoa"))
		defZ("max_itoa", constInt("proc/redis/codec.go", "maxItoa"))
		defN("default_buffer_size", constInt("proc/redis/bufio.go", "defaultBufferSize"))
		d, e := codecSizes("proc/redis/session.go", "newSession")
		defN("session_dec_buf", d)
		defN("session_enc_buf", e)
		d, e = codecSizes("proc/redis/upstream.go", "newClient")
		defN("client_dec_buf", d)
		defN("client_enc_buf", e)
	})
}
