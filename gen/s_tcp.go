package main

func init() {
	register("C05: proc/tcp/proc.go", func() {
		defN("tcp_buf_size", constInt("proc/tcp/proc.go", "bufSize"))
	})
	register("C07/C04: proc/redis/upstream.go refresh channel", func() {
		// capacity of the refresh trigger channel: a trigger arriving while a round is in flight must be kept
		defN("slots_refresh_ch_cap", chanCap("proc/redis/upstream.go", "slotsRefreshCh"))
	})
}
