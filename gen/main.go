// gen: table extractor. Parses Go sources of the repository under test (go/ast only,
// no type checking) and prints coq/Gen/Tables.v: every table / constant / literal the
// Coq theorems are stated about. It fails closed: if something it expects is missing or
// is not a literal it exits non-zero, which bin/check reports as a broken tie.
//
// usage: gen <repo-root> <out-file>
package main

import (
	"bytes"
	"fmt"
	"go/ast"
	"go/parser"
	"go/printer"
	"go/token"
	"os"
	"path/filepath"
	"sort"
	"strconv"
	"strings"
)

var fset = token.NewFileSet()
var root string
var files = map[string]*ast.File{}

func die(format string, a ...interface{}) {
	fmt.Fprintf(os.Stderr, "gen: "+format+"\n", a...)
	os.Exit(2)
}

func file(rel string) *ast.File {
	if f, ok := files[rel]; ok {
		return f
	}
	f, err := parser.ParseFile(fset, filepath.Join(root, rel), nil, parser.ParseComments)
	if err != nil {
		die("parse %s: %v", rel, err)
	}
	files[rel] = f
	return f
}

func src(n ast.Node) string {
	var b bytes.Buffer
	printer.Fprint(&b, fset, n)
	return strings.Join(strings.Fields(b.String()), "")
}

// valueOf finds a package-level const/var `name` in file rel and returns its value expr.
func valueOf(rel, name string) ast.Expr {
	f := file(rel)
	for _, d := range f.Decls {
		gd, ok := d.(*ast.GenDecl)
		if !ok {
			continue
		}
		for _, s := range gd.Specs {
			vs, ok := s.(*ast.ValueSpec)
			if !ok {
				continue
			}
			for i, n := range vs.Names {
				if n.Name == name {
					if i < len(vs.Values) {
						return vs.Values[i]
					}
					die("%s: %s has no initialiser", rel, name)
				}
			}
		}
	}
	die("%s: %s not found", rel, name)
	return nil
}

// evalInt evaluates integer constant expressions made of literals, named constants of
// the same file, + - * << and parentheses.
func evalInt(rel string, e ast.Expr) int64 {
	switch x := e.(type) {
	case *ast.BasicLit:
		switch x.Kind {
		case token.INT:
			v, err := strconv.ParseInt(x.Value, 0, 64)
			if err != nil {
				u, err2 := strconv.ParseUint(x.Value, 0, 64)
				if err2 != nil {
					die("bad int %s", x.Value)
				}
				return int64(u)
			}
			return v
		case token.CHAR:
			s, err := strconv.Unquote(x.Value)
			if err != nil || len([]rune(s)) != 1 {
				die("bad char %s", x.Value)
			}
			return int64([]rune(s)[0])
		}
	case *ast.ParenExpr:
		return evalInt(rel, x.X)
	case *ast.UnaryExpr:
		if x.Op == token.SUB {
			return -evalInt(rel, x.X)
		}
	case *ast.BinaryExpr:
		a, b := evalInt(rel, x.X), evalInt(rel, x.Y)
		switch x.Op {
		case token.ADD:
			return a + b
		case token.SUB:
			return a - b
		case token.MUL:
			return a * b
		case token.SHL:
			return a << uint(b)
		case token.QUO:
			if b == 0 {
				die("division by zero in constant")
			}
			return a / b
		}
	case *ast.Ident:
		return evalInt(rel, valueOf(rel, x.Name))
	case *ast.CallExpr: // conversions like uint16(3)
		if len(x.Args) == 1 {
			return evalInt(rel, x.Args[0])
		}
	}
	die("%s: cannot evaluate %s", rel, src(e))
	return 0
}

func constInt(rel, name string) int64 { return evalInt(rel, valueOf(rel, name)) }

func intArray(rel, name string) []int64 {
	cl, ok := valueOf(rel, name).(*ast.CompositeLit)
	if !ok {
		die("%s: %s is not a composite literal", rel, name)
	}
	var out []int64
	for _, e := range cl.Elts {
		out = append(out, evalInt(rel, e))
	}
	return out
}

func strLit(e ast.Expr) string {
	bl, ok := e.(*ast.BasicLit)
	if !ok || bl.Kind != token.STRING {
		die("not a string literal: %s", src(e))
	}
	s, err := strconv.Unquote(bl.Value)
	if err != nil {
		die("bad string literal %s", bl.Value)
	}
	return s
}

func strArray(rel, name string) []string {
	cl, ok := valueOf(rel, name).(*ast.CompositeLit)
	if !ok {
		die("%s: %s is not a composite literal", rel, name)
	}
	var out []string
	for _, e := range cl.Elts {
		if kv, ok := e.(*ast.KeyValueExpr); ok { // map literal: keys
			out = append(out, strLit(kv.Key))
		} else {
			out = append(out, strLit(e))
		}
	}
	return out
}

func funcDecl(rel, recv, name string) *ast.FuncDecl {
	f := file(rel)
	for _, d := range f.Decls {
		fd, ok := d.(*ast.FuncDecl)
		if !ok || fd.Name.Name != name {
			continue
		}
		r := ""
		if fd.Recv != nil && len(fd.Recv.List) == 1 {
			t := fd.Recv.List[0].Type
			if st, ok := t.(*ast.StarExpr); ok {
				t = st.X
			}
			if id, ok := t.(*ast.Ident); ok {
				r = id.Name
			}
		}
		if r == recv {
			return fd
		}
	}
	die("%s: func (%s) %s not found", rel, recv, name)
	return nil
}

// ---------------------------------------------------------------------------------
// Coq printing

var out bytes.Buffer

func coqStr(s string) string {
	for _, c := range []byte(s) {
		if c < 32 || c > 126 {
			die("non-printable byte in table string %q", s)
		}
	}
	return `"` + strings.ReplaceAll(s, `"`, `""`) + `"`
}

func defN(name string, v int64) {
	if v < 0 {
		die("%s negative", name)
	}
	fmt.Fprintf(&out, "Definition %s : N := %d%%N.\n", name, v)
}
func defZ(name string, v int64) {
	fmt.Fprintf(&out, "Definition %s : Z := (%d)%%Z.\n", name, v)
}
func defStr(name, v string) {
	fmt.Fprintf(&out, "Definition %s : string := %s.\n", name, coqStr(v))
}
func defNList(name string, vs []int64) {
	fmt.Fprintf(&out, "Definition %s : list N := [", name)
	for i, v := range vs {
		if i > 0 {
			out.WriteString("; ")
		}
		if i%8 == 0 {
			out.WriteString("\n  ")
		}
		fmt.Fprintf(&out, "%d", v)
	}
	out.WriteString("]%N.\n")
}
func defStrList(name string, vs []string) {
	fmt.Fprintf(&out, "Definition %s : list string := [", name)
	for i, v := range vs {
		if i > 0 {
			out.WriteString("; ")
		}
		if i%6 == 0 {
			out.WriteString("\n  ")
		}
		out.WriteString(coqStr(v))
	}
	out.WriteString("].\n")
}

func defStrListList(name string, vss [][]string) {
	fmt.Fprintf(&out, "Definition %s : list (list string) := [", name)
	for i, vs := range vss {
		if i > 0 {
			out.WriteString(";")
		}
		out.WriteString("\n  [")
		for j, v := range vs {
			if j > 0 {
				out.WriteString("; ")
			}
			out.WriteString(coqStr(v))
		}
		out.WriteString("]")
	}
	out.WriteString("].\n")
}

func sortedCopy(a []string) []string {
	b := append([]string(nil), a...)
	sort.Strings(b)
	return b
}

func main() {
	if len(os.Args) != 3 {
		die("usage: gen <repo-root> <out-file>")
	}
	root = os.Args[1]
	out.WriteString("(* GENERATED by /verif/gen from the Go sources of the repository under test.\n   Do not edit: regenerated on every run of bin/check. *)\n")
	out.WriteString("From Coq Require Import List NArith ZArith String.\nImport ListNotations.\nOpen Scope string_scope.\n\n")

	for _, s := range sections {
		fmt.Fprintf(&out, "\n(* ---- %s ---- *)\n", s.name)
		s.fn()
	}

	prev, _ := os.ReadFile(os.Args[2])
	if !bytes.Equal(prev, out.Bytes()) {
		if err := os.WriteFile(os.Args[2], out.Bytes(), 0644); err != nil {
			die("%v", err)
		}
	}
	// the translated functions go next to the tables
	translateFuncs(filepath.Join(filepath.Dir(os.Args[2]), "Funcs.v"))
}

type section struct {
	name string
	fn   func()
}

var sections []section

func register(name string, fn func()) { sections = append(sections, section{name, fn}) }

// chanCap finds `field: make(chan T, n)` in a composite literal of file rel and returns n (0 when the channel is unbuffered).
func chanCap(rel, field string) int64 {
	f := file(rel)
	var found *ast.CallExpr
	ast.Inspect(f, func(n ast.Node) bool {
		kv, ok := n.(*ast.KeyValueExpr)
		if !ok {
			return true
		}
		if id, ok := kv.Key.(*ast.Ident); ok && id.Name == field {
			if call, ok := kv.Value.(*ast.CallExpr); ok {
				if fn, ok := call.Fun.(*ast.Ident); ok && fn.Name == "make" {
					found = call
				}
			}
		}
		return true
	})
	if found == nil {
		die("%s: no `%s: make(chan ...)` found", rel, field)
	}
	if len(found.Args) < 2 {
		return 0
	}
	return evalInt(rel, found.Args[1])
}
