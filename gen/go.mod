module verifgen

go 1.21
