package main

func init() {
	register("C12: proc/redis/util.go, upstream.go", func() {
		tab := intArray("proc/redis/util.go", "crc16tab")
		defNList("crc16tab", tab)
		defN("slot_num", constInt("proc/redis/upstream.go", "slotNum"))
	})
}
