package main

import (
	"go/ast"
	"go/token"
)

func init() {
	register("C17: cmd/samaritan/hotrestart/rpc.go, hotrestart.go", func() {
		rel := "cmd/samaritan/hotrestart/rpc.go"
		f := file(rel)
		// the messageType iota block: names in order, first value = iota + 1
		var names []string
		for _, d := range f.Decls {
			gd, ok := d.(*ast.GenDecl)
			if !ok || gd.Tok != token.CONST {
				continue
			}
			first, ok := gd.Specs[0].(*ast.ValueSpec)
			if !ok || first.Type == nil || src(first.Type) != "messageType" {
				continue
			}
			if len(first.Values) != 1 || src(first.Values[0]) != "iota+1" {
				die("%s: messageType block does not start with iota + 1", rel)
			}
			for _, s := range gd.Specs {
				vs := s.(*ast.ValueSpec)
				if len(vs.Names) != 1 || (vs != first && len(vs.Values) != 0) {
					die("%s: unexpected messageType spec", rel)
				}
				names = append(names, vs.Names[0].Name)
			}
		}
		if len(names) == 0 {
			die("%s: messageType block not found", rel)
		}
		defStrList("hr_message_types", names)
		// the read buffer size in readMessage
		fd := funcDecl(rel, "", "readMessage")
		size := int64(-1)
		ast.Inspect(fd.Body, func(n ast.Node) bool {
			c, ok := n.(*ast.CallExpr)
			if ok && src(c.Fun) == "make" && len(c.Args) == 2 && src(c.Args[0]) == "[]byte" {
				size = evalInt(rel, c.Args[1])
			}
			return true
		})
		if size < 0 {
			die("%s: readMessage buffer size not found", rel)
		}
		defN("hr_read_size", size)
		// the dispatch switch of handleChild: case <type> -> handler name
		hd := funcDecl("cmd/samaritan/hotrestart/hotrestart.go", "Restarter", "handleChild")
		var cases, handlers []string
		def := ""
		ast.Inspect(hd.Body, func(n ast.Node) bool {
			sw, ok := n.(*ast.SwitchStmt)
			if !ok || sw.Tag == nil || src(sw.Tag) != "msg.Type" {
				return true
			}
			for _, st := range sw.Body.List {
				cc := st.(*ast.CaseClause)
				if len(cc.Body) != 1 {
					die("handleChild: unexpected case body")
				}
				as, ok := cc.Body[0].(*ast.AssignStmt)
				if !ok || src(as.Lhs[0]) != "handle" {
					die("handleChild: unexpected case body")
				}
				h := src(as.Rhs[0])
				if cc.List == nil {
					def = h
					continue
				}
				for _, e := range cc.List {
					cases = append(cases, src(e))
					handlers = append(handlers, h)
				}
			}
			return false
		})
		if len(cases) == 0 || def == "" {
			die("handleChild: dispatch switch not found")
		}
		defStrList("hr_dispatch_cases", cases)
		defStrList("hr_dispatch_handlers", handlers)
		defStr("hr_dispatch_default", def)
		// for each handler: the Instance method it calls (or none) and the reply constructor
		var hnames []string
		var scripts [][]string
		hf := file("cmd/samaritan/hotrestart/hotrestart.go")
		for _, d := range hf.Decls {
			fd, ok := d.(*ast.FuncDecl)
			if !ok || fd.Recv == nil || len(fd.Name.Name) < 6 || fd.Name.Name[:6] != "handle" || fd.Name.Name == "handleChild" {
				continue
			}
			// the handler's actions in source order: call:<Instance method or kill>, ctor:<reply constructor>, send
			var script []string
			add := func(ev string) { script = append(script, ev) }
			ast.Inspect(fd.Body, func(n ast.Node) bool {
				c, ok := n.(*ast.CallExpr)
				if !ok {
					return true
				}
				s := src(c.Fun)
				switch {
				case len(s) > 2 && s[:2] == "r." && len(c.Args) == 0:
					add("call:" + s[2:])
				case len(s) > 3 && s[:3] == "new":
					add("ctor:" + s)
				case s == "kill":
					add("call:kill")
				case s == "sendMessage":
					add("send")
				default:
					if s != "os.Getpid" {
						add("other:" + s)
					}
				}
				return true
			})
			hnames = append(hnames, "r."+fd.Name.Name)
			scripts = append(scripts, script)
		}
		defStrList("hr_handler_names", hnames)
		defStrListList("hr_handler_scripts", scripts)
		// reply constructors: constructor name -> message type name
		var ctors, ctypes []string
		for _, d := range f.Decls {
			fd, ok := d.(*ast.FuncDecl)
			if !ok || fd.Recv != nil || len(fd.Name.Name) < 4 || fd.Name.Name[:3] != "new" || fd.Name.Name == "newMessage" {
				continue
			}
			ast.Inspect(fd.Body, func(n ast.Node) bool {
				c, ok := n.(*ast.CallExpr)
				if ok && src(c.Fun) == "newMessage" && len(c.Args) == 2 {
					ctors = append(ctors, fd.Name.Name)
					ctypes = append(ctypes, src(c.Args[0]))
				}
				return true
			})
		}
		defStrList("hr_ctor_names", ctors)
		defStrList("hr_ctor_types", ctypes)
	})
}
